//@inject src/exec/produce_val.rs
// E-K harnesses for `binary_operator_fold` (src/exec/produce_val.rs) on the compiled code, scalar universe:
// all 13 operators x 16 ordered kind pairs x all payloads, one right operand, INCLUDING how often the right
// operand is evaluated (short-circuiting) and that an error from the operand is returned unchanged.
// Loop-free (one-element iterator) => complete for the stated kinds.  Lists of 2 operands: bounded, thorough.
use super::*;
use crate::exec::val::kani_val_scalar::{is, mk, t_cmp, t_eq, t_minus, t_over, t_plus, t_times, t_truthy, S};
use crate::exec::val::ValError;
use std::cmp::Ordering;

macro_rules! sym {
    (U) => {
        S::U
    };
    (N) => {
        S::N
    };
    (B) => {
        S::B(kani::any())
    };
    (F) => {
        S::F(kani::any())
    };
}

/// run the real fold with one deferred operand; returns (result, number of times the operand was evaluated)
fn fold1(op: BinaryOperator, a: S, b: S) -> (Result<Val, RuntimeError>, u32) {
    let mut calls = 0u32;
    let rhs = std::iter::once(move |n: &mut u32| {
        *n += 1;
        Ok(mk(b))
    });
    let r = binary_operator_fold(op, mk(a), rhs, &mut calls);
    (r, calls)
}

fn want_bool(r: &Result<Val, RuntimeError>, want: bool) -> bool {
    match r {
        Ok(v) => is(v, S::B(want)),
        _ => false,
    }
}
fn want_val(r: &Result<Val, RuntimeError>, want: S) -> bool {
    match r {
        Ok(v) => is(v, want),
        _ => false,
    }
}

fn chk_and(a: S, b: S) {
    let (r, calls) = fold1(BinaryOperator::And, a, b);
    assert!(calls == if t_truthy(a) { 1 } else { 0 }); // short-circuit
    assert!(want_bool(&r, t_truthy(a) && t_truthy(b)));
    std::mem::forget(r);
}
fn chk_or(a: S, b: S) {
    let (r, calls) = fold1(BinaryOperator::Or, a, b);
    assert!(calls == if t_truthy(a) { 0 } else { 1 });
    assert!(want_bool(&r, t_truthy(a) || t_truthy(b)));
    std::mem::forget(r);
}
fn chk_nor(a: S, b: S) {
    let (r, calls) = fold1(BinaryOperator::Nor, a, b);
    assert!(calls == if t_truthy(a) { 0 } else { 1 });
    assert!(want_bool(&r, !(t_truthy(a) || t_truthy(b))));
    std::mem::forget(r);
}
fn chk_eq(a: S, b: S) {
    let (r, calls) = fold1(BinaryOperator::Eq, a, b);
    assert!(calls == 1);
    assert!(want_bool(&r, t_eq(a, b)));
    std::mem::forget(r);
}
fn chk_noteq(a: S, b: S) {
    let (r, calls) = fold1(BinaryOperator::NotEq, a, b);
    assert!(calls == 1);
    assert!(want_bool(&r, !t_eq(a, b)));
    std::mem::forget(r);
}
fn chk_ordering(op: BinaryOperator, a: S, b: S) {
    let (r, calls) = fold1(op, a, b);
    assert!(calls == 1);
    let ok = match t_cmp(a, b) {
        Err(()) => match &r {
            Err(RuntimeError::ValError(ValError::InvalidComparison(x, y))) => is(x, a) && is(y, b),
            _ => false,
        },
        Ok(o) => {
            let want = match op {
                BinaryOperator::Greater => o == Some(Ordering::Greater),
                BinaryOperator::GreaterEq => o == Some(Ordering::Greater) || o == Some(Ordering::Equal),
                BinaryOperator::Less => o == Some(Ordering::Less),
                _ => o == Some(Ordering::Less) || o == Some(Ordering::Equal),
            };
            want_bool(&r, want)
        }
    };
    assert!(ok);
    std::mem::forget(r);
}
fn chk_greater(a: S, b: S) {
    chk_ordering(BinaryOperator::Greater, a, b)
}
fn chk_greatereq(a: S, b: S) {
    chk_ordering(BinaryOperator::GreaterEq, a, b)
}
fn chk_less(a: S, b: S) {
    chk_ordering(BinaryOperator::Less, a, b)
}
fn chk_lesseq(a: S, b: S) {
    chk_ordering(BinaryOperator::LessEq, a, b)
}
fn chk_plus(a: S, b: S) {
    let (r, calls) = fold1(BinaryOperator::Plus, a, b);
    assert!(calls == 1);
    assert!(want_val(&r, t_plus(a, b)));
    std::mem::forget(r);
}
fn chk_minus(a: S, b: S) {
    let (r, calls) = fold1(BinaryOperator::Minus, a, b);
    assert!(calls == 1);
    assert!(want_val(&r, t_minus(a, b)));
    std::mem::forget(r);
}
fn chk_mul(a: S, b: S) {
    let (r, calls) = fold1(BinaryOperator::Multiply, a, b);
    assert!(calls == 1);
    assert!(want_val(&r, t_times(a, b)));
    std::mem::forget(r);
}
fn chk_div(a: S, b: S) {
    let (r, calls) = fold1(BinaryOperator::Divide, a, b);
    assert!(calls == 1);
    assert!(want_val(&r, t_over(a, b)));
    std::mem::forget(r);
}

macro_rules! one {
    ($check:ident, $name:ident, $ka:ident, $kb:ident $(, $attr:meta)?) => {
        #[kani::proof]
        #[kani::unwind(3)]
        $(#[$attr])?
        fn $name() {
            let a = sym!($ka);
            let b = sym!($kb);
            $check(a, b);
            kani::cover!(true, "end of harness reached");
        }
    };
}
// quick tier: every operator on 4 representative kind pairs (the operator -> Val-method mapping and the
// evaluation count do not depend on the kinds — Verus proves `op` for all kinds — and the Val methods
// themselves are covered for all 16 pairs in val_scalar.rs); thorough tier: the remaining 12 pairs.
macro_rules! pairs4 {
    ($modname:ident, $check:ident) => {
        pub mod $modname {
            use super::*;
            one!($check, n_f, N, F);
            one!($check, b_f, B, F);
            one!($check, f_b, F, B);
            one!($check, u_n, U, N);
        }
    };
}
macro_rules! pairs12 {
    ($modname:ident, $check:ident) => {
        pub mod $modname {
            use super::*;
            one!($check, u_u, U, U);
            one!($check, u_b, U, B);
            one!($check, u_f, U, F);
            one!($check, n_u, N, U);
            one!($check, n_n, N, N);
            one!($check, n_b, N, B);
            one!($check, b_u, B, U);
            one!($check, b_n, B, N);
            one!($check, b_b, B, B);
            one!($check, f_u, F, U);
            one!($check, f_n, F, N);
        }
    };
}
macro_rules! ff {
    ($modname:ident, $check:ident) => {
        pub mod $modname {
            use super::*;
            one!($check, f_f, F, F);
        }
    };
}

pairs4!(c03_c14__fold_and, chk_and);
pairs4!(c03_c14__fold_or, chk_or);
pairs4!(c03_c14__fold_nor, chk_nor);
pairs4!(c03_c14__fold_eq, chk_eq);
pairs4!(c03_c14__fold_noteq, chk_noteq);
pairs4!(c03_c14__fold_greater, chk_greater);
pairs4!(c03_c14__fold_greatereq, chk_greatereq);
pairs4!(c03_c14__fold_less, chk_less);
pairs4!(c03_c14__fold_lesseq, chk_lesseq);
pairs4!(c03_c17__fold_plus, chk_plus);
pairs4!(c03_c17__fold_minus, chk_minus);
pairs4!(c03_c17__fold_multiply, chk_mul);
pairs4!(c03_c17__fold_divide, chk_div);
ff!(c03_c14__fold_ff_and, chk_and);
ff!(c03_c14__fold_ff_eq, chk_eq);
ff!(c03_c14__fold_ff_greatereq, chk_greatereq);
ff!(c03_c14__fold_ff_less, chk_less);
ff!(c03_c17__fold_ff_plus, chk_plus);
ff!(c03_c17__fold_ff_minus, chk_minus);
//@slow-begin
pairs12!(c03_c14__fold_rest_and, chk_and);
pairs12!(c03_c14__fold_rest_or, chk_or);
pairs12!(c03_c14__fold_rest_nor, chk_nor);
pairs12!(c03_c14__fold_rest_eq, chk_eq);
pairs12!(c03_c14__fold_rest_noteq, chk_noteq);
pairs12!(c03_c14__fold_rest_greater, chk_greater);
pairs12!(c03_c14__fold_rest_greatereq, chk_greatereq);
pairs12!(c03_c14__fold_rest_less, chk_less);
pairs12!(c03_c14__fold_rest_lesseq, chk_lesseq);
pairs12!(c03_c17__fold_rest_plus, chk_plus);
pairs12!(c03_c17__fold_rest_minus, chk_minus);
pairs12!(c03_c17__fold_rest_multiply, chk_mul);
pairs12!(c03_c17__fold_rest_divide, chk_div);
ff!(c03_c14__fold_ff_or, chk_or);
ff!(c03_c14__fold_ff_nor, chk_nor);
ff!(c03_c14__fold_ff_noteq, chk_noteq);
ff!(c03_c14__fold_ff_greater, chk_greater);
ff!(c03_c14__fold_ff_lesseq, chk_lesseq);
//@slow-end
// (Number x Number through the fold for `*` and `/`: CaDiCaL needs > 7 min and cvc5 aborts on this harness;
//  that cell is proved on Val::multiply / Val::divide directly in val_scalar.rs and the mapping by Verus.)

// ProduceVal::visit_unary_expression's operator table is covered through Val::negate / is_truthy (val_scalar.rs)
// and the Verus unit `fold`.

//@slow-begin
/// lists fold left to right: (a - b) - c, every operand evaluated once, in order  [bounded: 2 operands]
#[kani::proof]
#[kani::unwind(4)]
fn c03_c17__fold_minus_list__bounded_len2() {
    let a: f64 = kani::any();
    let b: f64 = kani::any();
    let c: f64 = kani::any();
    let mut order: (u32, u32) = (0, 0); // (calls, position at which operand #2 ran)
    let vals = [(b, 1u32), (c, 2u32)];
    let rhs = vals.iter().map(|v| {
        let (v, idx) = *v;
        move |n: &mut (u32, u32)| {
            n.0 += 1;
            if idx == 2 {
                n.1 = n.0;
            }
            Ok(Val::Number(v))
        }
    });
    let r = binary_operator_fold(BinaryOperator::Minus, Val::Number(a), rhs, &mut order);
    let ok = match &r {
        Ok(Val::Number(x)) => {
            let want = (a - b) - c;
            x.to_bits() == want.to_bits() || (x.is_nan() && want.is_nan())
        }
        _ => false,
    };
    std::mem::forget(r);
    assert!(ok);
    assert!(order.0 == 2 && order.1 == 2);
}
//@slow-end

#[kani::proof]
#[kani::unwind(3)]
fn canary_c03_c14__fold_and_never_short_circuits() {
    let b: f64 = kani::any();
    let (r, calls) = fold1(BinaryOperator::And, S::B(kani::any()), S::F(b));
    // deliberately wrong: claims the right operand of `and` is always evaluated
    assert!(calls == 1);
    std::mem::forget(r);
}
