//@inject src/exec/val.rs
// E-K harnesses for src/exec/val.rs — scalar universe (Undefined, Null, Boolean, Number).
// Injected at check time as `#[cfg(kani)] #[path = "..."] mod kani_val_scalar;` at the end of val.rs of a
// scratch copy of /repo, so `super::*` reaches the private functions (`cmp_coerced`, `plus_coerced`, ...).
//
// Every harness: concrete discriminants, symbolic payloads (all bool, all 2^64 f64 bit patterns), one call to
// the real function, comparison against the reference table below (written cell by cell from the Rockstar
// reference as pinned by the upstream test-suite, not from the code). Loop-free, #[kani::unwind(2)] with
// unwinding assertions on  =>  complete for the stated kinds.
//
// Naming convention read by tools/kani_engine.py: `<props>__<what>__<kinds>`; `canary_` prefix = must FAIL.
use super::*;
use std::cmp::Ordering;

#[derive(Clone, Copy)]
pub enum S {
    U,
    N,
    B(bool),
    F(f64),
}

pub fn mk(s: S) -> Val {
    match s {
        S::U => Val::Undefined,
        S::N => Val::Null,
        S::B(b) => Val::Boolean(b),
        S::F(f) => Val::Number(f),
    }
}

pub fn same_f(x: f64, y: f64) -> bool {
    x.to_bits() == y.to_bits() || (x.is_nan() && y.is_nan())
}

/// view of a result; `None` = a String/Array came back (never expected in the scalar universe)
pub fn is(v: &Val, s: S) -> bool {
    match (v, s) {
        (Val::Undefined, S::U) => true,
        (Val::Null, S::N) => true,
        (Val::Boolean(x), S::B(y)) => *x == y,
        (Val::Number(x), S::F(y)) => same_f(*x, y),
        _ => false,
    }
}

// ---------------------------------------------------------------- reference tables (scalar cells)
pub fn t_truthy(a: S) -> bool {
    match a {
        S::U => false,
        S::N => false,
        S::B(b) => b,
        S::F(f) => f != 0.0, // NaN is truthy, -0.0 is falsy
    }
}

/// `a is b`
pub fn t_eq(a: S, b: S) -> bool {
    match (a, b) {
        (S::U, S::U) => true,
        (S::U, S::N) | (S::N, S::U) => true, // mysterious is null (upstream equality test)
        (S::U, _) | (_, S::U) => false,
        (S::N, S::N) => true,
        (S::N, S::B(x)) | (S::B(x), S::N) => !x, // null -> false
        (S::N, S::F(x)) | (S::F(x), S::N) => x == 0.0, // null -> 0
        (S::B(x), S::B(y)) => x == y,
        (S::B(x), S::F(y)) | (S::F(y), S::B(x)) => x == (y != 0.0), // number -> boolean
        (S::F(x), S::F(y)) => x == y,
    }
}

/// ordering: Err = "invalid comparison" runtime error; Ok(None) = unordered (NaN)
pub fn t_cmp(a: S, b: S) -> Result<Option<Ordering>, ()> {
    match (a, b) {
        (S::U, S::U) => Ok(Some(Ordering::Equal)),
        (S::U, S::N) | (S::N, S::U) => Ok(Some(Ordering::Equal)),
        (S::U, _) | (_, S::U) => Err(()),
        (S::N, S::N) => Ok(Some(Ordering::Equal)),
        (S::N, S::F(x)) => Ok(0.0f64.partial_cmp(&x)),
        (S::F(x), S::N) => Ok(x.partial_cmp(&0.0f64)),
        (S::F(x), S::F(y)) => Ok(x.partial_cmp(&y)),
        // anything that ends up comparing booleans is an error
        (S::B(_), _) | (_, S::B(_)) => Err(()),
    }
}

pub fn t_plus(a: S, b: S) -> S {
    match (a, b) {
        (S::F(x), S::F(y)) => S::F(x + y),
        (S::N, S::F(y)) => S::F(0.0 + y),
        (S::F(x), S::N) => S::F(x + 0.0),
        _ => S::U,
    }
}
pub fn t_minus(a: S, b: S) -> S {
    match (a, b) {
        (S::F(x), S::F(y)) => S::F(x - y),
        (S::N, S::F(y)) => S::F(0.0 - y),
        (S::F(x), S::N) => S::F(x - 0.0),
        _ => S::U,
    }
}
pub fn t_times(a: S, b: S) -> S {
    match (a, b) {
        (S::F(x), S::F(y)) => S::F(x * y),
        (S::N, S::F(y)) => S::F(0.0 * y),
        (S::F(x), S::N) => S::F(x * 0.0),
        _ => S::U,
    }
}
pub fn t_over(a: S, b: S) -> S {
    match (a, b) {
        (S::F(x), S::F(y)) => S::F(x / y),
        (S::N, S::F(y)) => S::F(0.0 / y),
        (S::F(x), S::N) => S::F(x / 0.0),
        _ => S::U,
    }
}

// ---------------------------------------------------------------- harness generators
// kinds: a kind macro arm yields an `S` with a symbolic payload
macro_rules! sym {
    (U) => {
        S::U
    };
    (N) => {
        S::N
    };
    (B) => {
        S::B(kani::any())
    };
    (F) => {
        S::F(kani::any())
    };
}

// one harness per ordered kind pair for a checker `fn(S, S)`
macro_rules! pairs {
    // `$ffattr` is applied to the Number x Number cell only (solver choice for f64 `*` and `/`)
    ($modname:ident, $check:ident $(, $ffattr:meta)?) => {
        pub mod $modname {
            use super::*;
            pairs!(@one $check, u_u, U, U);
            pairs!(@one $check, u_n, U, N);
            pairs!(@one $check, u_b, U, B);
            pairs!(@one $check, u_f, U, F);
            pairs!(@one $check, n_u, N, U);
            pairs!(@one $check, n_n, N, N);
            pairs!(@one $check, n_b, N, B);
            pairs!(@one $check, n_f, N, F);
            pairs!(@one $check, b_u, B, U);
            pairs!(@one $check, b_n, B, N);
            pairs!(@one $check, b_b, B, B);
            pairs!(@one $check, b_f, B, F);
            pairs!(@one $check, f_u, F, U);
            pairs!(@one $check, f_n, F, N);
            pairs!(@one $check, f_b, F, B);
            pairs!(@one $check, f_f, F, F $(, $ffattr)?);
        }
    };
    (@one $check:ident, $name:ident, $ka:ident, $kb:ident $(, $attr:meta)?) => {
        #[kani::proof]
        #[kani::unwind(2)]
        $(#[$attr])?
        fn $name() {
            let a = sym!($ka);
            let b = sym!($kb);
            $check(a, b);
            kani::cover!(true, "end of harness reached");
        }
    };
}

// ---------------------------------------------------------------- Val::equals / compare / arithmetic
fn chk_equals(a: S, b: S) {
    let (va, vb) = (mk(a), mk(b));
    let r = va.equals(&vb);
    assert!(r == t_eq(a, b));
    // C14: symmetry on the compiled code
    let r2 = vb.equals(&va);
    assert!(r == r2);
    std::mem::forget((va, vb));
}
pairs!(c03_c14__equals, chk_equals);

fn chk_compare(a: S, b: S) {
    let (va, vb) = (mk(a), mk(b));
    let r = va.compare(&vb);
    let ok = match (&r, t_cmp(a, b)) {
        (Ok(x), Ok(y)) => *x == y,
        (Err(ValError::InvalidComparison(x, y)), Err(())) => is(x, a) && is(y, b),
        _ => false,
    };
    assert!(ok);
    // C14: antisymmetry / error symmetry on the compiled code
    let r2 = vb.compare(&va);
    let sym = match (&r, &r2) {
        (Ok(Some(o)), Ok(Some(p))) => *o == p.reverse(),
        (Ok(None), Ok(None)) => true,
        (Err(_), Err(_)) => true,
        _ => false,
    };
    assert!(sym);
    // C14: where an ordering exists, Equal coincides with equality
    if let Ok(o) = &r {
        assert!((*o == Some(Ordering::Equal)) == va.equals(&vb));
    }
    std::mem::forget((va, vb, r, r2));
}
pairs!(c03_c14__compare, chk_compare);

fn chk_plus(a: S, b: S) {
    let (va, vb) = (mk(a), mk(b));
    let r = va.plus(&vb);
    assert!(is(&r, t_plus(a, b)));
    std::mem::forget((va, vb, r));
}
pairs!(c03_c17__plus, chk_plus);

fn chk_subtract(a: S, b: S) {
    let (va, vb) = (mk(a), mk(b));
    let r = va.subtract(&vb);
    assert!(is(&r, t_minus(a, b)));
    std::mem::forget((va, vb, r));
}
pairs!(c03_c17__subtract, chk_subtract);

fn chk_multiply(a: S, b: S) {
    let (va, vb) = (mk(a), mk(b));
    let r = va.multiply(&vb);
    assert!(is(&r, t_times(a, b)));
    std::mem::forget((va, vb, r));
}
pairs!(c03_c17__multiply, chk_multiply, kani::solver(cvc5));

fn chk_divide(a: S, b: S) {
    let (va, vb) = (mk(a), mk(b));
    let r = va.divide(&vb);
    assert!(is(&r, t_over(a, b)));
    std::mem::forget((va, vb, r));
}
pairs!(c03_c17__divide, chk_divide, kani::solver(cvc5));

// ---------------------------------------------------------------- unary: truthiness, negate, inc, rounding
macro_rules! singles {
    ($modname:ident, $check:ident) => {
        pub mod $modname {
            use super::*;
            singles!(@one $check, u, U);
            singles!(@one $check, n, N);
            singles!(@one $check, b, B);
            singles!(@one $check, f, F);
        }
    };
    (@one $check:ident, $name:ident, $ka:ident) => {
        #[kani::proof]
        #[kani::unwind(2)]
        fn $name() {
            let a = sym!($ka);
            $check(a);
            kani::cover!(true, "end of harness reached");
        }
    };
}

fn chk_truthy(a: S) {
    let va = mk(a);
    assert!(va.is_truthy() == t_truthy(a));
    std::mem::forget(va);
}
singles!(c03_c14__is_truthy, chk_truthy);

fn chk_negate(a: S) {
    let va = mk(a);
    let r = va.negate();
    let ok = match (&r, a) {
        (Ok(v), S::F(f)) => is(v, S::F(-f)),
        (Err(ValError::InvalidOperationForType(_, v)), S::U | S::N | S::B(_)) => is(v, a),
        _ => false,
    };
    assert!(ok);
    std::mem::forget((va, r));
}
singles!(c03_c17__negate, chk_negate);

fn chk_decay(a: S) {
    let va = mk(a);
    let d = va.decay();
    let ok = matches!(&d, Cow::Borrowed(_)) && is(d.as_ref(), a);
    assert!(ok);
    std::mem::forget(d);
    std::mem::forget(va);
}
singles!(c03_c06__decay_scalar, chk_decay);

/// build up / knock down by any amount: null counts as 0, booleans toggle on odd amounts, numbers add,
/// mysterious is an error naming the direction.
fn chk_inc(a: S) {
    let x: isize = kani::any();
    let mut va = mk(a);
    let r = va.inc(x);
    let ok = match (a, &r) {
        (S::N, Ok(())) => is(&va, S::F(0.0 + x as f64)),
        (S::B(b), Ok(())) => is(&va, S::B(b ^ (x % 2 != 0))),
        (S::F(f), Ok(())) => is(&va, S::F(f + x as f64)),
        (S::U, Err(ValError::InvalidOperationForType(what, v))) => {
            is(v, S::U)
                && is(&va, S::U)
                && what.len() == 9
                && (what.as_bytes()[0] == if x >= 0 { b'i' } else { b'd' })
        }
        _ => false,
    };
    assert!(ok);
    std::mem::forget((va, r));
}
singles!(c03_c09__inc, chk_inc);

/// C14: building up k times then knocking down k times restores booleans (all k) and numbers |n| < 2^53
/// (for |k| < 2^53 so that `k as f64` is exact).
fn chk_inc_roundtrip(a: S) {
    let x: isize = kani::any();
    kani::assume(x != isize::MIN);
    let mut va = mk(a);
    match a {
        S::B(_) => {
            let _ = va.inc(x);
            let _ = va.inc(-x);
            assert!(is(&va, a));
        }
        S::F(f) => {
            let lim = 9007199254740992.0f64; // 2^53
            kani::assume(f == f.trunc() && f.abs() < lim);
            kani::assume((x as f64).abs() < lim);
            kani::assume((f + x as f64).abs() < lim);
            let _ = va.inc(x);
            let _ = va.inc(-x);
            // -0.0 and 0.0 are the same Rockstar number
            let ok = match &va {
                Val::Number(g) => *g == f,
                _ => false,
            };
            assert!(ok);
        }
        _ => {}
    }
    std::mem::forget(va);
}
singles!(c14__inc_roundtrip, chk_inc_roundtrip);

fn chk_round(a: S) {
    let dir: u8 = kani::any();
    kani::assume(dir < 3);
    let mut va = mk(a);
    let r = match dir {
        0 => va.round_up(),
        1 => va.round_down(),
        _ => va.round_nearest(),
    };
    let ok = match (a, &r) {
        (S::F(f), Ok(())) => is(
            &va,
            S::F(match dir {
                0 => f.ceil(),
                1 => f.floor(),
                _ => f.round(),
            }),
        ),
        (S::U | S::N | S::B(_), Err(ValError::InvalidOperationForType(_, v))) => is(v, a) && is(&va, a),
        _ => false,
    };
    assert!(ok);
    std::mem::forget((va, r));
}
singles!(c07__round, chk_round);

/// rounding really rounds: result is integral (or non-finite input unchanged), within 1 of the input, on the right side
#[kani::proof]
#[kani::unwind(2)]
fn c07__round_semantics() {
    let f: f64 = kani::any();
    kani::assume(f.is_finite());
    let mut up = Val::Number(f);
    let mut down = Val::Number(f);
    let mut near = Val::Number(f);
    let _ = up.round_up();
    let _ = down.round_down();
    let _ = near.round_nearest();
    match (&up, &down, &near) {
        (Val::Number(u), Val::Number(d), Val::Number(n)) => {
            // (when the result differs from f, |f| < 2^52 and the subtraction below is exact)
            assert!(*u >= f && (*u == f || *u - 1.0 < f) && *u == u.trunc());
            assert!(*d <= f && (*d == f || *d + 1.0 > f) && *d == d.trunc());
            assert!(*n == n.trunc() && (*n == f || (*n - f).abs() <= 0.5));
        }
        _ => {
            assert!(false);
        }
    }
    kani::cover!(true, "end of harness reached");
}

/// C07/C09: `try_to_integer` accepts exactly the integral values and returns them
#[kani::proof]
#[kani::unwind(2)]
fn c07_c09__try_to_integer() {
    let f: f64 = kani::any();
    let r = Val::try_to_integer(f, || ValError::ConvertingNumberToCharacterFailed(0.0));
    let integral = f == f.trunc(); // false for NaN; true for +-inf
    match &r {
        Ok(i) => {
            assert!(integral);
            if f.abs() < 9007199254740992.0 {
                assert!(*i as f64 == f);
            }
        }
        Err(_) => {
            assert!(!integral);
        }
    }
    kani::cover!(r.is_ok());
    kani::cover!(r.is_err());
    std::mem::forget(r);
}

/// C07: cut / join / cast on an operand of the wrong (scalar) kind: error naming the operand, operand unchanged
fn chk_wrong_kind(a: S) {
    let which: u8 = kani::any();
    kani::assume(which < 3);
    if let S::F(_) = a {
        kani::assume(which < 2); // cast on a number is valid (number -> character)
    }
    let mut va = mk(a);
    let r = match which {
        0 => va.split(None),
        1 => va.join(None),
        _ => va.cast(None),
    };
    let ok = match &r {
        Err(ValError::InvalidOperationForType(_, v)) => is(v, a) && is(&va, a),
        _ => false,
    };
    assert!(ok);
    std::mem::forget((va, r));
}
singles!(c07__wrong_kind_unchanged, chk_wrong_kind);

// ---------------------------------------------------------------- canaries (must FAIL: vacuity guard)
#[kani::proof]
#[kani::unwind(2)]
fn canary_c03_c14__equals_wrong_table() {
    let f: f64 = kani::any();
    let (va, vb) = (Val::Number(f), Val::Null);
    // deliberately wrong: claims `n is null` is always false
    assert!(!va.equals(&vb));
    std::mem::forget((va, vb));
}
