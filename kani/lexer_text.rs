//@inject src/frontend/lexer.rs
// E-K harnesses for the pointer arithmetic behind poetic string literals (C11, C01): Lexer::get_index_of /
// get_start_index_of recover a token's byte offset from the ADDRESS of its spelling (`offset_from` under a range check),
// get_literal_text_after / get_literal_text_between slice the buffer there.  Checked on the compiled code for every token
// position and length inside ONE fixed ASCII buffer of 10 bytes — labelled bounded (the buffer is fixed, offsets are symbolic):
// the offset is exactly the token's start, the unsafe offset_from is in bounds (Kani's pointer checks), the text begins AT
// the token (so it starts with the token's spelling, which parse_poetic_string_assignment_rhs unwraps a strip_prefix on).
use super::*;

const BUF: &str = "x says hi\n";

fn tok_at(start: usize, len: usize) -> Token<'static> {
    Token::new(TokenType::Word, &BUF[start..start + len], SourceRange::from(((1, 0), (1, 0))))
}

#[kani::proof]
fn c11_c01__literal_text_after__bounded_buf10() {
    let lx = Lexer::new(BUF);
    let start: usize = kani::any();
    let len: usize = kani::any();
    kani::assume(start <= BUF.len() && len <= BUF.len() - start);
    let tok = tok_at(start, len);
    assert!(lx.get_start_index_of(&tok) == Some(start));
    let after = lx.get_literal_text_after(&tok);
    assert!(after.is_some());
    let after = after.unwrap();
    assert!(after.len() == BUF.len() - start);
    assert!(after.as_ptr() == tok.spelling.as_ptr());
    assert!(after.len() >= tok.spelling.len());
    kani::cover!(start == BUF.len(), "token at the very end of the buffer");
    kani::cover!(start == 2 && len == 4, "the says token");
}

#[kani::proof]
fn c11_c01__literal_text_between__bounded_buf10() {
    let lx = Lexer::new(BUF);
    let s1: usize = kani::any();
    let l1: usize = kani::any();
    let s2: usize = kani::any();
    kani::assume(s1 <= BUF.len() && l1 <= BUF.len() - s1);
    kani::assume(s2 <= BUF.len());
    let t1 = tok_at(s1, l1);
    let t2 = tok_at(s2, 0);
    let between = lx.get_literal_text_between(&t1, &t2);
    if s1 <= s2 {
        assert!(between.is_some());
        let b = between.unwrap();
        assert!(b.len() == s2 - s1);
        assert!(b.as_ptr() == t1.spelling.as_ptr());
    } else {
        // an end before the start is no text, not a panic
        assert!(between.is_none());
    }
    kani::cover!(s1 < s2, "non-empty text");
}

#[kani::proof]
fn canary_c11__literal_text_after_is_whole_buffer() {
    let lx = Lexer::new(BUF);
    let start: usize = kani::any();
    kani::assume(start <= BUF.len());
    let tok = tok_at(start, 0);
    // deliberately wrong: claims the text after any token is the whole buffer
    assert!(lx.get_literal_text_after(&tok).unwrap().len() == BUF.len());
}
