//@inject src/analysis/visit.rs
// E-K harnesses for src/analysis/visit.rs (C16, also the traversal obligations of C17/C18/C19).
//
// Technique: *recording visitors*.  For the method under test, a recorder type overrides every method the
// method under test may call; each override does not descend but checks that it is the k-th callback expected
// (callback code AND the address/identity of the node it was handed) and returns a one-digit log; `combine`
// concatenates logs, `default` is the empty log.  So for one call of the method under test:
//   * expected sequence matched  => every child visited exactly once, in field order, none skipped/twice;
//   * returned log == expected digits => results folded left to right starting from the default;
//   * symbolic `fail_at`: the k-th callback fails with Err(k) => the walk returns Err(k) after exactly k callbacks.
// Children are abstract (never descended into), so each result holds for arbitrary subtrees.
// Optional children: symbolic presence.  Vec children: symbolic length <= 2 (harness name `__bounded_len2`).
use super::*;
use crate::frontend::source_range::SourceRange;
use std::sync::Arc;

#[derive(Clone, Copy, PartialEq, Eq)]
pub struct Log {
    v: u64,
    n: u32,
}
impl Log {
    pub fn combine_one(self, c: u8) -> Log {
        self.combine(Log { v: c as u64, n: 1 })
    }
}
impl Default for Log {
    fn default() -> Self {
        Log { v: 0, n: 0 }
    }
}
impl Combine for Log {
    fn combine(self, o: Self) -> Self {
        Log {
            v: (self.v << (4 * o.n)) | o.v,
            n: self.n + o.n,
        }
    }
}

pub const MAXEXP: usize = 8;
pub struct Core {
    fail_at: u8,
    n: u8,
    exp: [(u8, usize); MAXEXP],
    exp_len: usize,
    exp_log: Log,
}
impl Core {
    pub fn calls(&self) -> u8 {
        self.n
    }
    pub fn new(fail_at: u8) -> Self {
        Core {
            fail_at,
            n: 0,
            exp: [(0, 0); MAXEXP],
            exp_len: 0,
            exp_log: Log { v: 0, n: 0 },
        }
    }
    pub fn expect(&mut self, code: u8, id: usize) {
        self.exp[self.exp_len] = (code, id);
        self.exp_len += 1;
        self.exp_log = self.exp_log.combine(Log {
            v: code as u64,
            n: 1,
        });
    }
    pub fn step(&mut self, code: u8, id: usize) -> std::result::Result<Log, u8> {
        let k = self.n as usize;
        assert!(k < self.exp_len, "unexpected extra callback");
        assert!(self.exp[k].0 == code, "callback kind out of order");
        assert!(self.exp[k].1 == id, "callback received the wrong node");
        self.n += 1;
        if self.n == self.fail_at {
            Err(self.n)
        } else {
            Ok(Log {
                v: code as u64,
                n: 1,
            })
        }
    }
    fn expected_log(&self) -> Log {
        self.exp_log
    }
    /// the contract of one traversal method
    pub fn check(&self, out: std::result::Result<Log, u8>) {
        let n = self.exp_len as u8;
        match out {
            Ok(l) => {
                assert!(self.fail_at == 0 || self.fail_at > n, "error swallowed");
                assert!(self.n == n, "a child was skipped");
                assert!(l == self.expected_log(), "results not folded left to right from the default");
            }
            Err(k) => {
                assert!(self.fail_at >= 1 && self.fail_at <= n, "spurious error");
                assert!(k == self.fail_at, "error not returned unchanged");
                assert!(self.n == k, "walk continued after the first error");
            }
        }
    }
}

fn id<T: ?Sized>(x: &T) -> usize {
    x as *const T as *const u8 as usize
}

// callback codes (one hex digit each)
pub const C_EXPR: u8 = 1;
pub const C_BINOP: u8 = 2;
pub const C_ELIST: u8 = 3;
pub const C_POPEXPR: u8 = 4;
pub const C_PRIMARY: u8 = 5;
pub const C_UNOP: u8 = 6;
pub const C_IDENT: u8 = 7;
pub const C_SUBSCRIPT: u8 = 8;
pub const C_VARNAME: u8 = 9;
pub const C_PNL: u8 = 10;
pub const C_LHS: u8 = 11;
pub const C_RHS: u8 = 12;
pub const C_MISC: u8 = 13; // a second family member where two are needed in one harness
pub const C_BLOCK: u8 = 14;
pub const C_STMT: u8 = 15;

// one arm per overridable VisitExpr method
macro_rules! ovr {
    (visit_assignment_lhs) => {
        fn visit_assignment_lhs(&mut self, a: &AssignmentLHS) -> Result<Self> {
            self.0.step(C_LHS, id(a))
        }
    };
    (visit_assignment_rhs) => {
        fn visit_assignment_rhs(&mut self, a: &AssignmentRHS) -> Result<Self> {
            self.0.step(C_RHS, id(a))
        }
    };
    (visit_poetic_number_assignment_rhs) => {
        fn visit_poetic_number_assignment_rhs(&mut self, a: &PoeticNumberAssignmentRHS) -> Result<Self> {
            self.0.step(C_MISC, id(a))
        }
    };
    (visit_poetic_number_literal) => {
        fn visit_poetic_number_literal(&mut self, a: &PoeticNumberLiteral) -> Result<Self> {
            self.0.step(C_PNL, id(a))
        }
    };
    (visit_poetic_number_literal_elem) => {
        fn visit_poetic_number_literal_elem(&mut self, a: &PoeticNumberLiteralElem) -> Result<Self> {
            self.0.step(C_MISC, id(a))
        }
    };
    (visit_array_push_rhs) => {
        fn visit_array_push_rhs(&mut self, a: &ArrayPushRHS) -> Result<Self> {
            self.0.step(C_RHS, id(a))
        }
    };
    (visit_array_pop_expr) => {
        fn visit_array_pop_expr(&mut self, a: &ArrayPopExpr) -> Result<Self> {
            self.0.step(C_POPEXPR, id(a))
        }
    };
    (visit_binary_operator) => {
        fn visit_binary_operator(&mut self, o: BinaryOperator) -> Result<Self> {
            self.0.step(C_BINOP, o as usize)
        }
    };
    (visit_unary_operator) => {
        fn visit_unary_operator(&mut self, o: UnaryOperator) -> Result<Self> {
            self.0.step(C_UNOP, o as usize)
        }
    };
    (visit_expression_list) => {
        fn visit_expression_list(&mut self, a: &ExpressionList) -> Result<Self> {
            self.0.step(C_ELIST, id(a))
        }
    };
    (visit_expression) => {
        fn visit_expression(&mut self, a: &Expression) -> Result<Self> {
            self.0.step(C_EXPR, id(a))
        }
    };
    (visit_primary_expression) => {
        fn visit_primary_expression(&mut self, a: &PrimaryExpression) -> Result<Self> {
            self.0.step(C_PRIMARY, id(a))
        }
    };
    (visit_binary_expression) => {
        fn visit_binary_expression(&mut self, a: &BinaryExpression) -> Result<Self> {
            self.0.step(C_BINOP, id(a))
        }
    };
    (visit_unary_expression) => {
        fn visit_unary_expression(&mut self, a: &UnaryExpression) -> Result<Self> {
            self.0.step(C_UNOP, id(a))
        }
    };
    (visit_array_subscript) => {
        fn visit_array_subscript(&mut self, a: &ArraySubscript) -> Result<Self> {
            self.0.step(C_SUBSCRIPT, id(a))
        }
    };
    (visit_literal_expression) => {
        fn visit_literal_expression(&mut self, a: &WithRange<LiteralExpression>) -> Result<Self> {
            self.0.step(C_MISC, id(a))
        }
    };
    (visit_function_call) => {
        fn visit_function_call(&mut self, a: &FunctionCall) -> Result<Self> {
            self.0.step(C_LHS, id(a))
        }
    };
    (visit_identifier) => {
        fn visit_identifier(&mut self, a: &WithRange<Identifier>) -> Result<Self> {
            self.0.step(C_IDENT, id(a))
        }
    };
    (visit_pronoun) => {
        fn visit_pronoun(&mut self, r: SourceRange) -> Result<Self> {
            self.0.step(C_MISC, r.start().column as usize)
        }
    };
    (visit_variable_name) => {
        fn visit_variable_name(&mut self, a: WithRange<&VariableName>) -> Result<Self> {
            self.0.step(C_VARNAME, id(a.0) ^ (a.1.start().column as usize) << 40)
        }
    };
    (visit_simple_identifier) => {
        fn visit_simple_identifier(&mut self, a: WithRange<&SimpleIdentifier>) -> Result<Self> {
            self.0.step(C_IDENT, id(a.0) ^ (a.1.start().column as usize) << 40)
        }
    };
    (visit_common_identifier) => {
        fn visit_common_identifier(&mut self, a: WithRange<&CommonIdentifier>) -> Result<Self> {
            self.0.step(C_SUBSCRIPT, id(a.0) ^ (a.1.start().column as usize) << 40)
        }
    };
    (visit_proper_identifier) => {
        fn visit_proper_identifier(&mut self, a: WithRange<&ProperIdentifier>) -> Result<Self> {
            self.0.step(C_VARNAME, id(a.0) ^ (a.1.start().column as usize) << 40)
        }
    };
}
/// `WithRange<&T>` passed by value: identity = address of the referent, tagged with the range's start column
fn idr<T>(x: &T, r: &SourceRange) -> usize {
    id(x) ^ (r.start().column as usize) << 40
}

macro_rules! recorder {
    ($name:ident; $($m:ident),* $(,)?) => {
        pub struct $name(pub Core);
        impl Visit for $name {
            type Output = Log;
            type Error = u8;
        }
        impl VisitExpr for $name {
            $( ovr!($m); )*
        }
    };
}

// ------------------------------------------------------------------------------------------ node builders
// (leaves are pronouns: no String / f64 payloads are ever read, see DESIGN.md §9.3)
fn rng(col: u32) -> SourceRange {
    ((1, col), (1, col + 1)).into()
}
fn pron(col: u32) -> PrimaryExpression {
    PrimaryExpression::Identifier(WithRange(Identifier::Pronoun, rng(col)))
}
fn pexpr(col: u32) -> Expression {
    Expression::PrimaryExpression(pron(col))
}
fn ident(col: u32) -> WithRange<Identifier> {
    WithRange(Identifier::Pronoun, rng(col))
}
fn lhs(col: u32) -> AssignmentLHS {
    AssignmentLHS::Identifier(ident(col))
}
fn elist(col: u32) -> ExpressionList {
    ExpressionList {
        first: pexpr(col),
        rest: Vec::new(),
    }
}
fn any_binop() -> BinaryOperator {
    match kani::any::<u8>() % 13 {
        0 => BinaryOperator::Plus,
        1 => BinaryOperator::Minus,
        2 => BinaryOperator::Multiply,
        3 => BinaryOperator::Divide,
        4 => BinaryOperator::And,
        5 => BinaryOperator::Or,
        6 => BinaryOperator::Nor,
        7 => BinaryOperator::Eq,
        8 => BinaryOperator::NotEq,
        9 => BinaryOperator::Greater,
        10 => BinaryOperator::GreaterEq,
        11 => BinaryOperator::Less,
        _ => BinaryOperator::LessEq,
    }
}
fn any_unop() -> UnaryOperator {
    if kani::any() {
        UnaryOperator::Minus
    } else {
        UnaryOperator::Not
    }
}

macro_rules! finish {
    ($r:expr, $out:expr $(, $forget:expr)*) => {{
        $r.0.check($out);
        kani::cover!(true, "end of harness reached");
        $( std::mem::forget($forget); )*
    }};
}

// ========================================================================================= VisitExpr defaults
pub mod c16__default_expr {
    use super::*;

    recorder!(RLhs; visit_identifier, visit_array_subscript);
    #[kani::proof]
    #[kani::unwind(3)]
    fn assignment_lhs() {
        let mut r = RLhs(Core::new(kani::any()));
        let node = if kani::any() {
            lhs(3)
        } else {
            AssignmentLHS::ArraySubscript(ArraySubscript {
                array: Box::new(pron(1)),
                subscript: Box::new(pron(2)),
            })
        };
        match &node {
            AssignmentLHS::Identifier(i) => r.0.expect(C_IDENT, id(i)),
            AssignmentLHS::ArraySubscript(a) => r.0.expect(C_SUBSCRIPT, id(a)),
        }
        let out = r.visit_assignment_lhs(&node);
        finish!(r, out, node);
    }

    recorder!(RRhs; visit_expression_list, visit_expression, visit_poetic_number_literal);
    #[kani::proof]
    #[kani::unwind(3)]
    fn assignment_rhs() {
        let mut r = RRhs(Core::new(kani::any()));
        let node = AssignmentRHS::ExpressionList(elist(1));
        match &node {
            AssignmentRHS::ExpressionList(e) => r.0.expect(C_ELIST, id(e)),
        }
        let out = r.visit_assignment_rhs(&node);
        finish!(r, out, node);
    }
    #[kani::proof]
    #[kani::unwind(3)]
    fn poetic_number_assignment_rhs() {
        let mut r = RRhs(Core::new(kani::any()));
        let node = if kani::any() {
            PoeticNumberAssignmentRHS::Expression(pexpr(1))
        } else {
            PoeticNumberAssignmentRHS::PoeticNumberLiteral(PoeticNumberLiteral { elems: Vec::new() })
        };
        match &node {
            PoeticNumberAssignmentRHS::Expression(e) => r.0.expect(C_EXPR, id(e)),
            PoeticNumberAssignmentRHS::PoeticNumberLiteral(p) => r.0.expect(C_PNL, id(p)),
        }
        let out = r.visit_poetic_number_assignment_rhs(&node);
        finish!(r, out, node);
    }
    #[kani::proof]
    #[kani::unwind(3)]
    fn array_push_rhs() {
        let mut r = RRhs(Core::new(kani::any()));
        let node = if kani::any() {
            ArrayPushRHS::ExpressionList(elist(1))
        } else {
            ArrayPushRHS::PoeticNumberLiteral(PoeticNumberLiteral { elems: Vec::new() })
        };
        match &node {
            ArrayPushRHS::ExpressionList(e) => r.0.expect(C_ELIST, id(e)),
            ArrayPushRHS::PoeticNumberLiteral(p) => r.0.expect(C_PNL, id(p)),
        }
        let out = r.visit_array_push_rhs(&node);
        finish!(r, out, node);
    }

    recorder!(RPop; visit_primary_expression);
    #[kani::proof]
    #[kani::unwind(3)]
    fn array_pop_expr() {
        let mut r = RPop(Core::new(kani::any()));
        let node = ArrayPopExpr { array: pron(1) };
        r.0.expect(C_PRIMARY, id(&node.array));
        let out = r.visit_array_pop_expr(&node);
        finish!(r, out, node);
    }
    #[kani::proof]
    #[kani::unwind(3)]
    fn array_subscript() {
        let mut r = RPop(Core::new(kani::any()));
        let node = ArraySubscript {
            array: Box::new(pron(1)),
            subscript: Box::new(pron(2)),
        };
        r.0.expect(C_PRIMARY, id(&*node.array));
        r.0.expect(C_PRIMARY, id(&*node.subscript));
        let out = r.visit_array_subscript(&node);
        finish!(r, out, node);
    }

    recorder!(RBin; visit_expression, visit_binary_operator, visit_unary_operator, visit_expression_list);
    #[kani::proof]
    #[kani::unwind(3)]
    fn binary_expression() {
        let mut r = RBin(Core::new(kani::any()));
        let node = BinaryExpression {
            operator: any_binop(),
            lhs: Box::new(pexpr(1)),
            rhs: Box::new(elist(2)),
        };
        r.0.expect(C_EXPR, id(&*node.lhs));
        r.0.expect(C_BINOP, node.operator as usize);
        r.0.expect(C_ELIST, id(&*node.rhs));
        let out = r.visit_binary_expression(&node);
        finish!(r, out, node);
    }
    #[kani::proof]
    #[kani::unwind(3)]
    fn unary_expression() {
        let mut r = RBin(Core::new(kani::any()));
        let node = UnaryExpression {
            operator: any_unop(),
            operand: Box::new(pexpr(1)),
        };
        r.0.expect(C_UNOP, node.operator as usize);
        r.0.expect(C_EXPR, id(&*node.operand));
        let out = r.visit_unary_expression(&node);
        finish!(r, out, node);
    }

    recorder!(RExpr; visit_primary_expression, visit_binary_expression, visit_unary_expression);
    #[kani::proof]
    #[kani::unwind(3)]
    fn expression_dispatch() {
        let mut r = RExpr(Core::new(kani::any()));
        let node = match kani::any::<u8>() % 3 {
            0 => pexpr(1),
            1 => Expression::BinaryExpression(BinaryExpression {
                operator: BinaryOperator::Plus,
                lhs: Box::new(pexpr(1)),
                rhs: Box::new(elist(2)),
            }),
            _ => Expression::UnaryExpression(UnaryExpression {
                operator: UnaryOperator::Not,
                operand: Box::new(pexpr(1)),
            }),
        };
        match &node {
            Expression::PrimaryExpression(e) => r.0.expect(C_PRIMARY, id(e)),
            Expression::BinaryExpression(e) => r.0.expect(C_BINOP, id(e)),
            Expression::UnaryExpression(e) => r.0.expect(C_UNOP, id(e)),
        }
        let out = r.visit_expression(&node);
        finish!(r, out, node);
    }

    recorder!(RPrim; visit_literal_expression, visit_identifier, visit_array_subscript, visit_function_call, visit_array_pop_expr);
    #[kani::proof]
    #[kani::unwind(3)]
    fn primary_expression_dispatch() {
        let mut r = RPrim(Core::new(kani::any()));
        let node = match kani::any::<u8>() % 5 {
            0 => PrimaryExpression::Literal(WithRange(LiteralExpression::Null, rng(1))),
            1 => pron(1),
            2 => PrimaryExpression::ArraySubscript(ArraySubscript {
                array: Box::new(pron(1)),
                subscript: Box::new(pron(2)),
            }),
            3 => PrimaryExpression::FunctionCall(FunctionCall {
                name: WithRange(VariableName::Proper(ProperIdentifier(Vec::new())), rng(1)),
                args: Vec::new(),
            }),
            _ => PrimaryExpression::ArrayPop(Box::new(ArrayPopExpr { array: pron(1) })),
        };
        match &node {
            PrimaryExpression::Literal(e) => r.0.expect(C_MISC, id(e)),
            PrimaryExpression::Identifier(e) => r.0.expect(C_IDENT, id(e)),
            PrimaryExpression::ArraySubscript(e) => r.0.expect(C_SUBSCRIPT, id(e)),
            PrimaryExpression::FunctionCall(e) => r.0.expect(C_LHS, id(e)),
            PrimaryExpression::ArrayPop(e) => r.0.expect(C_POPEXPR, id(&**e)),
        }
        let out = r.visit_primary_expression(&node);
        finish!(r, out, node);
    }

    recorder!(RIdent; visit_variable_name, visit_pronoun);
    #[kani::proof]
    #[kani::unwind(3)]
    fn identifier_dispatch() {
        let mut r = RIdent(Core::new(kani::any()));
        let node = if kani::any() {
            ident(7)
        } else {
            WithRange(
                Identifier::VariableName(VariableName::Proper(ProperIdentifier(Vec::new()))),
                rng(9),
            )
        };
        match &node.0 {
            Identifier::Pronoun => r.0.expect(C_MISC, 7),
            Identifier::VariableName(n) => r.0.expect(C_VARNAME, idr(n, &node.1)),
        }
        let out = r.visit_identifier(&node);
        finish!(r, out, node);
    }

    recorder!(RName; visit_simple_identifier, visit_common_identifier, visit_proper_identifier);
    #[kani::proof]
    #[kani::unwind(3)]
    fn variable_name_dispatch() {
        let mut r = RName(Core::new(kani::any()));
        let name = match kani::any::<u8>() % 3 {
            0 => VariableName::Simple(SimpleIdentifier(String::new())),
            1 => VariableName::Common(CommonIdentifier(String::new(), String::new())),
            _ => VariableName::Proper(ProperIdentifier(Vec::new())),
        };
        let range = rng(5);
        match &name {
            VariableName::Simple(x) => r.0.expect(C_IDENT, idr(x, &range)),
            VariableName::Common(x) => r.0.expect(C_SUBSCRIPT, idr(x, &range)),
            VariableName::Proper(x) => r.0.expect(C_VARNAME, idr(x, &range)),
        }
        let out = r.visit_variable_name(WithRange(&name, range));
        finish!(r, out, name);
    }

    // ---- list-shaped children: symbolic length 0..=2 (bounded)
    recorder!(RList; visit_expression, visit_variable_name, visit_poetic_number_literal_elem);
    #[kani::proof]
    #[kani::unwind(4)]
    fn expression_list__bounded_len2() {
        let mut r = RList(Core::new(kani::any()));
        let n: u8 = kani::any();
        kani::assume(n <= 2);
        let mut rest = Vec::new();
        if n >= 1 {
            rest.push(pexpr(2));
        }
        if n >= 2 {
            rest.push(pexpr(3));
        }
        let node = ExpressionList { first: pexpr(1), rest };
        r.0.expect(C_EXPR, id(&node.first));
        if n >= 1 {
            r.0.expect(C_EXPR, id(&node.rest[0]));
        }
        if n >= 2 {
            r.0.expect(C_EXPR, id(&node.rest[1]));
        }
        let out = r.visit_expression_list(&node);
        finish!(r, out, node);
    }
    #[kani::proof]
    #[kani::unwind(4)]
    fn function_call__bounded_len2() {
        let mut r = RList(Core::new(kani::any()));
        let n: u8 = kani::any();
        kani::assume(n <= 2);
        let mut args = Vec::new();
        if n >= 1 {
            args.push(pexpr(2));
        }
        if n >= 2 {
            args.push(pexpr(3));
        }
        let node = FunctionCall {
            name: WithRange(VariableName::Proper(ProperIdentifier(Vec::new())), rng(4)),
            args,
        };
        r.0.expect(C_VARNAME, idr(&node.name.0, &node.name.1));
        if n >= 1 {
            r.0.expect(C_EXPR, id(&node.args[0]));
        }
        if n >= 2 {
            r.0.expect(C_EXPR, id(&node.args[1]));
        }
        let out = r.visit_function_call(&node);
        finish!(r, out, node);
    }
    #[kani::proof]
    #[kani::unwind(4)]
    fn poetic_number_literal__bounded_len2() {
        let mut r = RList(Core::new(kani::any()));
        let n: u8 = kani::any();
        kani::assume(n <= 2);
        let mut elems = Vec::new();
        if n >= 1 {
            elems.push(PoeticNumberLiteralElem::Dot);
        }
        if n >= 2 {
            elems.push(PoeticNumberLiteralElem::Dot);
        }
        let node = PoeticNumberLiteral { elems };
        if n >= 1 {
            r.0.expect(C_MISC, id(&node.elems[0]));
        }
        if n >= 2 {
            r.0.expect(C_MISC, id(&node.elems[1]));
        }
        let out = r.visit_poetic_number_literal(&node);
        finish!(r, out, node);
    }
}

// ========================================================================================= leaves
pub mod c16__leaves {
    use super::*;
    recorder!(RNone;);
    #[kani::proof]
    #[kani::unwind(3)]
    fn expr_leaves_return_default() {
        let mut r = RNone(Core::new(0));
        let range = rng(1);
        let simple = SimpleIdentifier(String::new());
        let lit = WithRange(LiteralExpression::Null, rng(2));
        let ok = r.visit_binary_operator(any_binop()) == Ok(Log::default())
            && r.visit_unary_operator(any_unop()) == Ok(Log::default())
            && r.visit_pronoun(range.clone()) == Ok(Log::default())
            && r.visit_simple_identifier(WithRange(&simple, range.clone())) == Ok(Log::default())
            && r.visit_literal_expression(&lit) == Ok(Log::default())
            && r.visit_poetic_number_literal_elem(&PoeticNumberLiteralElem::Dot) == Ok(Log::default());
        assert!(ok);
        assert!(().combine(()) == ());
        kani::cover!(true, "end of harness reached");
        std::mem::forget((simple, lit));
    }
}


// ========================================================================================= combine_all
/// an output type whose Default is NOT neutral under combine, so that "the fold starts from the default" is observable
#[derive(Clone, Copy, PartialEq, Eq)]
pub struct Marked(u64, u32);
impl Default for Marked {
    fn default() -> Self {
        Marked(0xD, 1)
    }
}
impl Combine for Marked {
    fn combine(self, o: Self) -> Self {
        Marked((self.0 << (4 * o.1)) | o.0, self.1 + o.1)
    }
}
pub mod c16__combine_all {
    use super::*;
    /// combine_all = left fold FROM THE DEFAULT, every item in order, first error returned, nothing after it consumed
    /// [bounded: at most 2 items]
    #[kani::proof]
    #[kani::unwind(4)]
    fn folds_from_default__bounded_len2() {
        let a: u8 = kani::any();
        let b: u8 = kani::any();
        kani::assume(a < 16 && b < 16);
        let fail: u8 = kani::any(); // 0 = none, 1 = first item is an error, 2 = second
        let len: usize = kani::any();
        kani::assume(len <= 2);
        let mut pulled = 0u8;
        let items = [(a, 1u8), (b, 2u8)];
        let it = items[..len].iter().map(|(v, k)| {
            pulled += 1;
            if *k == fail {
                Err(*k)
            } else {
                Ok(Marked(*v as u64, 1))
            }
        });
        let r: std::result::Result<Marked, u8> = combine_all(it);
        let d = Marked::default();
        let want = if fail >= 1 && (fail as usize) <= len {
            Err(fail)
        } else if len == 0 {
            Ok(d)
        } else if len == 1 {
            Ok(d.combine(Marked(a as u64, 1)))
        } else {
            Ok(d.combine(Marked(a as u64, 1)).combine(Marked(b as u64, 1)))
        };
        assert!(r == want);
        // an error stops the walk: nothing after the failing item is pulled from the iterator
        assert!(pulled as usize == if fail >= 1 && (fail as usize) <= len { fail as usize } else { len });
        kani::cover!(true, "end of harness reached");
    }
}

// ========================================================================================= canary
#[kani::proof]
#[kani::unwind(3)]
fn canary_c16__wrong_order_expected() {
    recorder!(RBin2; visit_expression, visit_binary_operator, visit_expression_list);
    let mut r = RBin2(Core::new(0));
    let node = BinaryExpression {
        operator: BinaryOperator::Plus,
        lhs: Box::new(pexpr(1)),
        rhs: Box::new(elist(2)),
    };
    // deliberately wrong: claims the operator is visited before the left operand
    r.0.expect(C_BINOP, node.operator as usize);
    r.0.expect(C_EXPR, id(&*node.lhs));
    r.0.expect(C_ELIST, id(&*node.rhs));
    let out = r.visit_binary_expression(&node);
    r.0.check(out);
    std::mem::forget(node);
}
