//@inject src/frontend/ast.rs
// E-K harness for PoeticNumberLiteral::word_len (C11) — BOUNDED: all valid UTF-8 strings of at most 2 bytes
// (4 bytes did not finish in 300 s); enough to tell characters from bytes (any 2-byte character).
// (Verus cannot reason about `str` contents; longer inputs are not covered.)
use super::*;

/// number of characters that are not apostrophes, computed from the bytes: every non-continuation byte starts a char
fn expected(bytes: &[u8]) -> usize {
    let mut n = 0;
    let mut i = 0;
    while i < bytes.len() {
        let b = bytes[i];
        if (b & 0xC0) != 0x80 && b != b'\'' {
            n += 1;
        }
        i += 1;
    }
    n
}

#[kani::proof]
#[kani::unwind(4)]
fn c11__word_len__bounded_2_bytes() {
    let bytes: [u8; 2] = kani::any();
    let len: usize = kani::any();
    kani::assume(len <= 2);
    if let Ok(s) = std::str::from_utf8(&bytes[..len]) {
        assert!(PoeticNumberLiteral::word_len(s) == expected(&bytes[..len]));
        kani::cover!(s.len() == 2 && s.chars().count() == 1, "one 2-byte character");
    }
}

#[kani::proof]
#[kani::unwind(4)]
fn canary_c11__word_len_counts_bytes() {
    let bytes: [u8; 2] = kani::any();
    if let Ok(s) = std::str::from_utf8(&bytes[..2]) {
        // deliberately wrong: claims word_len is the byte length
        assert!(PoeticNumberLiteral::word_len(s) == 2);
    }
}
