//@inject src/analysis/visit.rs
// E-K harnesses for src/analysis/visit.rs, part 2: `VisitProgram` default methods and every method of
// `impl VisitExpr / VisitProgram for ExprVisitorRunner<T>`.  Same recording-visitor technique as visit_rec.rs.
use super::kani_visit_rec::*;
use super::*;
use crate::frontend::source_range::{SourceLocation, SourceRange};
use std::sync::Arc;

fn id<T: ?Sized>(x: &T) -> usize {
    x as *const T as *const u8 as usize
}
fn idr<T>(x: &T, r: &SourceRange) -> usize {
    id(x) ^ (r.start().column as usize) << 40
}
fn rng(col: u32) -> SourceRange {
    ((1, col), (1, col + 1)).into()
}
fn pron(col: u32) -> PrimaryExpression {
    PrimaryExpression::Identifier(WithRange(Identifier::Pronoun, rng(col)))
}
fn pexpr(col: u32) -> Expression {
    Expression::PrimaryExpression(pron(col))
}
fn ident(col: u32) -> WithRange<Identifier> {
    WithRange(Identifier::Pronoun, rng(col))
}
fn lhs(col: u32) -> AssignmentLHS {
    AssignmentLHS::Identifier(ident(col))
}
fn elist(col: u32) -> ExpressionList {
    ExpressionList {
        first: pexpr(col),
        rest: Vec::new(),
    }
}
fn vname(col: u32) -> WithRange<VariableName> {
    WithRange(VariableName::Proper(ProperIdentifier(Vec::new())), rng(col))
}
/// a block whose traversal by the runner produces exactly one callback: visit_identifier(&dest)
/// (`Inc` is the smallest statement with a child; big enum payloads are what makes CBMC slow here)
fn out_block(col: u32) -> Block {
    Block::NonEmpty(vec![Statement::Inc(Inc {
        dest: ident(col),
        amount: 1,
    })])
}
fn block_expr(b: &Block) -> &WithRange<Identifier> {
    match b {
        Block::NonEmpty(v) => match &v[0] {
            Statement::Inc(o) => &o.dest,
            _ => unreachable!(),
        },
        _ => unreachable!(),
    }
}
fn loc() -> SourceLocation {
    SourceLocation::new(1, 0)
}

macro_rules! finish {
    ($core:expr, $out:expr $(, $forget:expr)*) => {{
        $core.check($out);
        kani::cover!(true, "end of harness reached");
        $( std::mem::forget($forget); )*
    }};
}

// ------------------------------------------------------------------ VisitProgram overrides for recorders
macro_rules! povr {
    (visit_block) => {
        fn visit_block(&mut self, b: &Block) -> Result<Self> {
            self.0.step(C_BLOCK, id(b))
        }
    };
    (visit_statement) => {
        fn visit_statement(&mut self, s: &Statement) -> Result<Self> {
            self.0.step(C_STMT, id(s))
        }
    };
    (visit_function_data) => {
        fn visit_function_data(&mut self, f: &FunctionData) -> Result<Self> {
            self.0.step(C_MISC, id(f))
        }
    };
    (visit_mutation_operator) => {
        fn visit_mutation_operator(&mut self, o: MutationOperator) -> Result<Self> {
            self.0.step(C_BINOP, o as usize)
        }
    };
    (visit_rounding_direction) => {
        fn visit_rounding_direction(&mut self, o: RoundingDirection) -> Result<Self> {
            self.0.step(C_UNOP, o as usize)
        }
    };
    (visit_poetic_number_assignment) => {
        fn visit_poetic_number_assignment(&mut self, a: &PoeticNumberAssignment) -> Result<Self> {
            self.0.step(C_LHS, id(a))
        }
    };
    (visit_poetic_string_assignment) => {
        fn visit_poetic_string_assignment(&mut self, a: &PoeticStringAssignment) -> Result<Self> {
            self.0.step(C_RHS, id(a))
        }
    };
    // the 18 statement kinds (code = position in the enum, identity = address of the payload)
    (statements) => {
        fn visit_assignment(&mut self, a: &Assignment) -> Result<Self> {
            self.0.step(1, id(a))
        }
        fn visit_poetic_assignment(&mut self, a: &PoeticAssignment) -> Result<Self> {
            self.0.step(2, id(a))
        }
        fn visit_if(&mut self, a: &If) -> Result<Self> {
            self.0.step(3, id(a))
        }
        fn visit_while(&mut self, a: &While) -> Result<Self> {
            self.0.step(4, id(a))
        }
        fn visit_until(&mut self, a: &Until) -> Result<Self> {
            self.0.step(5, id(a))
        }
        fn visit_inc(&mut self, a: &Inc) -> Result<Self> {
            self.0.step(6, id(a))
        }
        fn visit_dec(&mut self, a: &Dec) -> Result<Self> {
            self.0.step(7, id(a))
        }
        fn visit_input(&mut self, a: &Input) -> Result<Self> {
            self.0.step(8, id(a))
        }
        fn visit_output(&mut self, a: &Output) -> Result<Self> {
            self.0.step(9, id(a))
        }
        fn visit_mutation(&mut self, a: &Mutation) -> Result<Self> {
            self.0.step(10, id(a))
        }
        fn visit_rounding(&mut self, a: &Rounding) -> Result<Self> {
            self.0.step(11, id(a))
        }
        fn visit_continue(&mut self, a: &Continue) -> Result<Self> {
            self.0.step(12, id(a))
        }
        fn visit_break(&mut self, a: &Break) -> Result<Self> {
            self.0.step(13, id(a))
        }
        fn visit_array_push(&mut self, a: &ArrayPush) -> Result<Self> {
            self.0.step(14, id(a))
        }
        fn visit_array_pop(&mut self, a: &ArrayPop) -> Result<Self> {
            self.0.step(15, id(a))
        }
        fn visit_return(&mut self, a: &Return) -> Result<Self> {
            self.0.step(1, id(a))
        }
        fn visit_function(&mut self, a: &Function) -> Result<Self> {
            self.0.step(2, id(a))
        }
        fn visit_function_call_statement(&mut self, a: &FunctionCall) -> Result<Self> {
            self.0.step(3, id(a))
        }
    };
}
macro_rules! prog_recorder {
    ($name:ident; $($m:ident),* $(,)?) => {
        pub struct $name(pub Core);
        impl Visit for $name {
            type Output = Log;
            type Error = u8;
        }
        impl VisitProgram for $name {
            $( povr!($m); )*
        }
    };
}

// ========================================================================================= VisitProgram defaults
pub mod c16_c18_c19__default_prog {
    use super::*;

    prog_recorder!(RBlock; visit_block, visit_function_data, visit_mutation_operator, visit_rounding_direction,
                   visit_poetic_number_assignment, visit_poetic_string_assignment);

    #[kani::proof]
    #[kani::unwind(3)]
    fn visit_if() {
        let mut r = RBlock(Core::new(kani::any()));
        let node = If {
            condition: pexpr(1),
            then_block: out_block(2),
            else_block: if kani::any() { Some(out_block(3)) } else { None },
        };
        r.0.expect(C_BLOCK, id(&node.then_block));
        if let Some(e) = &node.else_block {
            r.0.expect(C_BLOCK, id(e));
        }
        let out = VisitProgram::visit_if(&mut r, &node);
        finish!(r.0, out, node);
    }
    #[kani::proof]
    #[kani::unwind(3)]
    fn visit_while_until() {
        let mut r = RBlock(Core::new(kani::any()));
        if kani::any() {
            let node = While {
                condition: pexpr(1),
                block: out_block(2),
            };
            r.0.expect(C_BLOCK, id(&node.block));
            let out = VisitProgram::visit_while(&mut r, &node);
            finish!(r.0, out, node);
        } else {
            let node = Until {
                condition: pexpr(1),
                block: out_block(2),
            };
            r.0.expect(C_BLOCK, id(&node.block));
            let out = VisitProgram::visit_until(&mut r, &node);
            finish!(r.0, out, node);
        }
    }
    #[kani::proof]
    #[kani::unwind(3)]
    fn visit_function_and_data() {
        let mut r = RBlock(Core::new(kani::any()));
        let data = Arc::new(FunctionData {
            params: Vec::new(),
            body: out_block(2),
        });
        let node = Function { name: vname(1), data };
        if kani::any() {
            r.0.expect(C_MISC, id(&*node.data));
            let out = VisitProgram::visit_function(&mut r, &node);
            finish!(r.0, out, node);
        } else {
            // visit_function_data is overridden in RBlock; test its default through a second recorder
            prog_recorder!(RData; visit_block);
            let mut r2 = RData(Core::new(kani::any()));
            r2.0.expect(C_BLOCK, id(&node.data.body));
            let out = VisitProgram::visit_function_data(&mut r2, &node.data);
            finish!(r2.0, out, node);
        }
    }
    #[kani::proof]
    #[kani::unwind(3)]
    fn visit_mutation_rounding() {
        let mut r = RBlock(Core::new(kani::any()));
        if kani::any() {
            let node = Mutation {
                operator: match kani::any::<u8>() % 3 {
                    0 => MutationOperator::Cut,
                    1 => MutationOperator::Join,
                    _ => MutationOperator::Cast,
                },
                operand: pron(1),
                dest: None,
                param: None,
            };
            r.0.expect(C_BINOP, node.operator as usize);
            let out = VisitProgram::visit_mutation(&mut r, &node);
            finish!(r.0, out, node);
        } else {
            let node = Rounding {
                direction: match kani::any::<u8>() % 3 {
                    0 => RoundingDirection::Up,
                    1 => RoundingDirection::Down,
                    _ => RoundingDirection::Nearest,
                },
                operand: pexpr(1),
            };
            r.0.expect(C_UNOP, node.direction as usize);
            let out = VisitProgram::visit_rounding(&mut r, &node);
            finish!(r.0, out, node);
        }
    }
    #[kani::proof]
    #[kani::unwind(3)]
    fn visit_poetic_assignment() {
        let mut r = RBlock(Core::new(kani::any()));
        let node = if kani::any() {
            PoeticAssignment::Number(PoeticNumberAssignment {
                dest: lhs(1),
                rhs: PoeticNumberAssignmentRHS::Expression(pexpr(2)),
            })
        } else {
            PoeticAssignment::String(PoeticStringAssignment {
                dest: lhs(1),
                rhs: String::new(),
            })
        };
        match &node {
            PoeticAssignment::Number(a) => r.0.expect(C_LHS, id(a)),
            PoeticAssignment::String(a) => r.0.expect(C_RHS, id(a)),
        }
        let out = VisitProgram::visit_poetic_assignment(&mut r, &node);
        finish!(r.0, out, node);
    }

    prog_recorder!(RStmts; statements);
    fn any_statement(k: u8) -> Statement {
        match k {
            0 => Statement::Assignment(Assignment {
                dest: lhs(1),
                value: AssignmentRHS::ExpressionList(elist(2)),
                operator: None,
            }),
            1 => Statement::PoeticAssignment(PoeticAssignment::String(PoeticStringAssignment {
                dest: lhs(1),
                rhs: String::new(),
            })),
            2 => Statement::If(If {
                condition: pexpr(1),
                then_block: Block::Empty(loc()),
                else_block: None,
            }),
            3 => Statement::While(While {
                condition: pexpr(1),
                block: Block::Empty(loc()),
            }),
            4 => Statement::Until(Until {
                condition: pexpr(1),
                block: Block::Empty(loc()),
            }),
            5 => Statement::Inc(Inc {
                dest: ident(1),
                amount: 1,
            }),
            6 => Statement::Dec(Dec {
                dest: ident(1),
                amount: 1,
            }),
            7 => Statement::Input(Input {
                dest: InputDest::None(loc()),
            }),
            8 => Statement::Output(Output { value: pexpr(1) }),
            9 => Statement::Mutation(Mutation {
                operator: MutationOperator::Cut,
                operand: pron(1),
                dest: None,
                param: None,
            }),
            10 => Statement::Rounding(Rounding {
                direction: RoundingDirection::Up,
                operand: pexpr(1),
            }),
            11 => Statement::Continue(Continue(rng(1))),
            12 => Statement::Break(Break(rng(1))),
            13 => Statement::ArrayPush(ArrayPush {
                array: pron(1),
                value: None,
            }),
            14 => Statement::ArrayPop(ArrayPop {
                expr: ArrayPopExpr { array: pron(1) },
                dest: None,
            }),
            15 => Statement::Return(Return { value: pexpr(1) }),
            16 => Statement::Function(Function {
                name: vname(1),
                data: Arc::new(FunctionData {
                    params: Vec::new(),
                    body: Block::Empty(loc()),
                }),
            }),
            _ => Statement::FunctionCall(FunctionCall {
                name: vname(1),
                args: Vec::new(),
            }),
        }
    }
    fn expect_statement(r: &mut RStmts, s: &Statement) {
        match s {
            Statement::Assignment(a) => r.0.expect(1, id(a)),
            Statement::PoeticAssignment(a) => r.0.expect(2, id(a)),
            Statement::If(a) => r.0.expect(3, id(a)),
            Statement::While(a) => r.0.expect(4, id(a)),
            Statement::Until(a) => r.0.expect(5, id(a)),
            Statement::Inc(a) => r.0.expect(6, id(a)),
            Statement::Dec(a) => r.0.expect(7, id(a)),
            Statement::Input(a) => r.0.expect(8, id(a)),
            Statement::Output(a) => r.0.expect(9, id(a)),
            Statement::Mutation(a) => r.0.expect(10, id(a)),
            Statement::Rounding(a) => r.0.expect(11, id(a)),
            Statement::Continue(a) => r.0.expect(12, id(a)),
            Statement::Break(a) => r.0.expect(13, id(a)),
            Statement::ArrayPush(a) => r.0.expect(14, id(a)),
            Statement::ArrayPop(a) => r.0.expect(15, id(a)),
            Statement::Return(a) => r.0.expect(1, id(a)),
            Statement::Function(a) => r.0.expect(2, id(a)),
            Statement::FunctionCall(a) => r.0.expect(3, id(a)),
        }
    }
    // one harness per statement kind (a symbolic kind makes the 18-way `Statement` union symbolic and CBMC slow)
    macro_rules! stmt_dispatch {
        ($($name:ident = $k:expr),*) => { $(
            #[kani::proof]
            #[kani::unwind(3)]
            fn $name() {
                let mut r = RStmts(Core::new(kani::any()));
                let node = any_statement($k);
                expect_statement(&mut r, &node);
                let out = VisitProgram::visit_statement(&mut r, &node);
                finish!(r.0, out, node);
            }
        )* };
    }
    stmt_dispatch!(stmt_poetic_assignment = 1, stmt_if = 2, stmt_while = 3, stmt_until = 4,
                   stmt_inc = 5, stmt_dec = 6, stmt_input = 7, stmt_output = 8, stmt_rounding = 10,
                   stmt_continue = 11, stmt_break = 12, stmt_return = 15,
                   stmt_function = 16, stmt_function_call = 17);
    // (assignment = 0, mutation = 9, array_push = 13, array_pop = 14 take 5-20 min of symbolic execution each — large by-value enum
    //  payloads — and were removed; all 18 kinds are proved without bound by the Verus unit visit_defaults)

    prog_recorder!(RList; visit_statement, visit_block);
    #[kani::proof]
    #[kani::unwind(4)]
    fn visit_block__bounded_len2() {
        prog_recorder!(RStm; visit_statement);
        let mut r = RStm(Core::new(kani::any()));
        let n: u8 = kani::any();
        kani::assume(n <= 2);
        let node = if n == 0 {
            Block::Empty(loc())
        } else {
            let mut v = vec![Statement::Continue(Continue(rng(1)))];
            if n == 2 {
                v.push(Statement::Break(Break(rng(2))));
            }
            Block::NonEmpty(v)
        };
        if let Block::NonEmpty(v) = &node {
            r.0.expect(C_STMT, id(&v[0]));
            if n == 2 {
                r.0.expect(C_STMT, id(&v[1]));
            }
        }
        let out = VisitProgram::visit_block(&mut r, &node);
        finish!(r.0, out, node);
    }
    #[kani::proof]
    #[kani::unwind(4)]
    fn visit_program__bounded_len2() {
        prog_recorder!(RBlk; visit_block);
        let mut r = RBlk(Core::new(kani::any()));
        let n: u8 = kani::any();
        kani::assume(n <= 2);
        let mut code = Vec::new();
        if n >= 1 {
            code.push(Block::Empty(loc()));
        }
        if n >= 2 {
            code.push(Block::Empty(loc()));
        }
        let node = Program { code };
        if n >= 1 {
            r.0.expect(C_BLOCK, id(&node.code[0]));
        }
        if n >= 2 {
            r.0.expect(C_BLOCK, id(&node.code[1]));
        }
        let out = VisitProgram::visit_program(&mut r, &node);
        finish!(r.0, out, node);
    }
}

// ========================================================================================= ExprVisitorRunner
// inner recorder overriding every VisitExpr method the runner can reach
macro_rules! ovr_full {
    ($name:ident) => {
        pub struct $name(pub Core);
        impl Visit for $name {
            type Output = Log;
            type Error = u8;
        }
        impl VisitExpr for $name {
            fn visit_assignment_lhs(&mut self, a: &AssignmentLHS) -> Result<Self> {
                self.0.step(C_LHS, id(a))
            }
            fn visit_assignment_rhs(&mut self, a: &AssignmentRHS) -> Result<Self> {
                self.0.step(C_RHS, id(a))
            }
            fn visit_poetic_number_assignment_rhs(&mut self, a: &PoeticNumberAssignmentRHS) -> Result<Self> {
                self.0.step(C_MISC, id(a))
            }
            fn visit_poetic_number_literal(&mut self, a: &PoeticNumberLiteral) -> Result<Self> {
                self.0.step(C_PNL, id(a))
            }
            fn visit_poetic_number_literal_elem(&mut self, a: &PoeticNumberLiteralElem) -> Result<Self> {
                self.0.step(C_PNL, id(a))
            }
            fn visit_array_push_rhs(&mut self, a: &ArrayPushRHS) -> Result<Self> {
                self.0.step(C_RHS, id(a))
            }
            fn visit_array_pop_expr(&mut self, a: &ArrayPopExpr) -> Result<Self> {
                self.0.step(C_POPEXPR, id(a))
            }
            fn visit_binary_operator(&mut self, o: BinaryOperator) -> Result<Self> {
                self.0.step(C_BINOP, o as usize)
            }
            fn visit_unary_operator(&mut self, o: UnaryOperator) -> Result<Self> {
                self.0.step(C_UNOP, o as usize)
            }
            fn visit_expression_list(&mut self, a: &ExpressionList) -> Result<Self> {
                self.0.step(C_ELIST, id(a))
            }
            fn visit_expression(&mut self, a: &Expression) -> Result<Self> {
                self.0.step(C_EXPR, id(a))
            }
            fn visit_primary_expression(&mut self, a: &PrimaryExpression) -> Result<Self> {
                self.0.step(C_PRIMARY, id(a))
            }
            fn visit_binary_expression(&mut self, a: &BinaryExpression) -> Result<Self> {
                self.0.step(C_BINOP, id(a))
            }
            fn visit_unary_expression(&mut self, a: &UnaryExpression) -> Result<Self> {
                self.0.step(C_UNOP, id(a))
            }
            fn visit_array_subscript(&mut self, a: &ArraySubscript) -> Result<Self> {
                self.0.step(C_SUBSCRIPT, id(a))
            }
            fn visit_literal_expression(&mut self, a: &WithRange<LiteralExpression>) -> Result<Self> {
                self.0.step(C_MISC, id(a))
            }
            fn visit_function_call(&mut self, a: &FunctionCall) -> Result<Self> {
                self.0.step(C_LHS, id(a))
            }
            fn visit_identifier(&mut self, a: &WithRange<Identifier>) -> Result<Self> {
                self.0.step(C_IDENT, id(a))
            }
            fn visit_pronoun(&mut self, r: SourceRange) -> Result<Self> {
                self.0.step(C_MISC, r.start().column as usize)
            }
            fn visit_variable_name(&mut self, a: WithRange<&VariableName>) -> Result<Self> {
                self.0.step(C_VARNAME, idr(a.0, &a.1))
            }
            fn visit_simple_identifier(&mut self, a: WithRange<&SimpleIdentifier>) -> Result<Self> {
                self.0.step(C_IDENT, idr(a.0, &a.1))
            }
            fn visit_common_identifier(&mut self, a: WithRange<&CommonIdentifier>) -> Result<Self> {
                self.0.step(C_SUBSCRIPT, idr(a.0, &a.1))
            }
            fn visit_proper_identifier(&mut self, a: WithRange<&ProperIdentifier>) -> Result<Self> {
                self.0.step(C_VARNAME, idr(a.0, &a.1))
            }
        }
    };
}
ovr_full!(RFull);

type Runner = ExprVisitorRunner<RFull>;
fn runner() -> Runner {
    ExprVisitorRunner::with_inner(RFull(Core::new(kani::any())))
}

pub mod c16_c19__runner_prog {
    use super::*;

    #[kani::proof]
    #[kani::unwind(3)]
    fn visit_assignment() {
        let mut r = runner();
        let node = Assignment {
            dest: lhs(1),
            value: AssignmentRHS::ExpressionList(elist(2)),
            operator: if kani::any() { Some(any_binop()) } else { None },
        };
        r.inner.0.expect(C_LHS, id(&node.dest));
        if let Some(o) = node.operator {
            r.inner.0.expect(C_BINOP, o as usize);
        }
        r.inner.0.expect(C_RHS, id(&node.value));
        let out = r.visit_assignment(&node);
        finish!(r.inner.0, out, node);
    }
    fn any_binop() -> BinaryOperator {
        match kani::any::<u8>() % 4 {
            0 => BinaryOperator::Plus,
            1 => BinaryOperator::Minus,
            2 => BinaryOperator::Multiply,
            _ => BinaryOperator::Divide,
        }
    }
    #[kani::proof]
    #[kani::unwind(3)]
    fn visit_poetic_assignments() {
        let mut r = runner();
        let direct: bool = kani::any();
        if kani::any() {
            let a = PoeticNumberAssignment {
                dest: lhs(1),
                rhs: PoeticNumberAssignmentRHS::Expression(pexpr(2)),
            };
            r.inner.0.expect(C_LHS, id(&a.dest));
            r.inner.0.expect(C_MISC, id(&a.rhs));
            if direct {
                let out = r.visit_poetic_number_assignment(&a);
                finish!(r.inner.0, out, a);
            } else {
                let node = PoeticAssignment::Number(a);
                // the payload moved: re-register addresses
                let mut r = runner();
                if let PoeticAssignment::Number(a) = &node {
                    r.inner.0.expect(C_LHS, id(&a.dest));
                    r.inner.0.expect(C_MISC, id(&a.rhs));
                }
                let out = r.visit_poetic_assignment(&node);
                finish!(r.inner.0, out, node);
            }
        } else {
            let a = PoeticStringAssignment {
                dest: lhs(1),
                rhs: String::new(),
            };
            if direct {
                r.inner.0.expect(C_LHS, id(&a.dest));
                let out = r.visit_poetic_string_assignment(&a);
                finish!(r.inner.0, out, a);
            } else {
                let node = PoeticAssignment::String(a);
                if let PoeticAssignment::String(a) = &node {
                    r.inner.0.expect(C_LHS, id(&a.dest));
                }
                let out = r.visit_poetic_assignment(&node);
                finish!(r.inner.0, out, node);
            }
        }
    }
    // quick tier: child blocks are empty (condition visited first, exactly once; errors returned unchanged);
    // the variants that walk into non-empty child blocks are below in the slow region, and the unbounded
    // statement (all blocks, all lengths) is discharged by the Verus unit `visit_runner`.
    #[kani::proof]
    #[kani::unwind(3)]
    fn visit_if_while_until_empty_blocks() {
        let mut r = runner();
        match kani::any::<u8>() % 3 {
            0 => {
                let node = If {
                    condition: pexpr(1),
                    then_block: Block::Empty(loc()),
                    else_block: if kani::any() { Some(Block::Empty(loc())) } else { None },
                };
                r.inner.0.expect(C_EXPR, id(&node.condition));
                let out = r.visit_if(&node);
                finish!(r.inner.0, out, node);
            }
            1 => {
                let node = While {
                    condition: pexpr(1),
                    block: Block::Empty(loc()),
                };
                r.inner.0.expect(C_EXPR, id(&node.condition));
                let out = r.visit_while(&node);
                finish!(r.inner.0, out, node);
            }
            _ => {
                let node = Until {
                    condition: pexpr(1),
                    block: Block::Empty(loc()),
                };
                r.inner.0.expect(C_EXPR, id(&node.condition));
                let out = r.visit_until(&node);
                finish!(r.inner.0, out, node);
            }
        }
    }
    // (harnesses that run the runner over REAL nested blocks / parameter lists were removed: CBMC needs > 30 min or runs out of
    //  memory on them; the same methods are proved for all blocks and list lengths by the Verus unit visit_runner)
    #[kani::proof]
    #[kani::unwind(3)]
    fn visit_inc_dec() {
        let mut r = runner();
        if kani::any() {
            let node = Inc {
                dest: ident(1),
                amount: kani::any(),
            };
            r.inner.0.expect(C_IDENT, id(&node.dest));
            let out = r.visit_inc(&node);
            finish!(r.inner.0, out, node);
        } else {
            let node = Dec {
                dest: ident(1),
                amount: kani::any(),
            };
            r.inner.0.expect(C_IDENT, id(&node.dest));
            let out = r.visit_dec(&node);
            finish!(r.inner.0, out, node);
        }
    }
    #[kani::proof]
    #[kani::unwind(3)]
    fn visit_input_output_return() {
        let mut r = runner();
        match kani::any::<u8>() % 4 {
            0 => {
                let node = Input {
                    dest: InputDest::Some(lhs(1)),
                };
                if let InputDest::Some(l) = &node.dest {
                    r.inner.0.expect(C_LHS, id(l));
                }
                let out = r.visit_input(&node);
                finish!(r.inner.0, out, node);
            }
            1 => {
                let node = Input {
                    dest: InputDest::None(loc()),
                };
                let out = r.visit_input(&node);
                finish!(r.inner.0, out, node);
            }
            2 => {
                let node = Output { value: pexpr(1) };
                r.inner.0.expect(C_EXPR, id(&node.value));
                let out = r.visit_output(&node);
                finish!(r.inner.0, out, node);
            }
            _ => {
                let node = Return { value: pexpr(1) };
                r.inner.0.expect(C_EXPR, id(&node.value));
                let out = r.visit_return(&node);
                finish!(r.inner.0, out, node);
            }
        }
    }
    #[kani::proof]
    #[kani::unwind(3)]
    fn visit_mutation() {
        let mut r = runner();
        let node = Mutation {
            operator: MutationOperator::Cast,
            operand: pron(1),
            dest: if kani::any() { Some(lhs(2)) } else { None },
            param: if kani::any() { Some(pexpr(3)) } else { None },
        };
        r.inner.0.expect(C_PRIMARY, id(&node.operand));
        if let Some(d) = &node.dest {
            r.inner.0.expect(C_LHS, id(d));
        }
        if let Some(p) = &node.param {
            r.inner.0.expect(C_EXPR, id(p));
        }
        let out = r.visit_mutation(&node);
        finish!(r.inner.0, out, node);
    }
    #[kani::proof]
    #[kani::unwind(3)]
    fn visit_rounding() {
        let mut r = runner();
        let node = Rounding {
            direction: RoundingDirection::Nearest,
            operand: pexpr(1),
        };
        r.inner.0.expect(C_EXPR, id(&node.operand));
        let out = r.visit_rounding(&node);
        finish!(r.inner.0, out, node);
    }
    #[kani::proof]
    #[kani::unwind(3)]
    fn visit_continue_break() {
        let mut r = runner();
        if kani::any() {
            let node = Continue(rng(1));
            let out = r.visit_continue(&node);
            finish!(r.inner.0, out, node);
        } else {
            let node = Break(rng(1));
            let out = r.visit_break(&node);
            finish!(r.inner.0, out, node);
        }
    }
    #[kani::proof]
    #[kani::unwind(3)]
    fn visit_array_push() {
        let mut r = runner();
        let node = ArrayPush {
            array: pron(1),
            value: if kani::any() {
                Some(ArrayPushRHS::ExpressionList(elist(2)))
            } else {
                None
            },
        };
        r.inner.0.expect(C_PRIMARY, id(&node.array));
        if let Some(v) = &node.value {
            r.inner.0.expect(C_RHS, id(v));
        }
        let out = r.visit_array_push(&node);
        finish!(r.inner.0, out, node);
    }
    #[kani::proof]
    #[kani::unwind(3)]
    fn visit_array_pop() {
        let mut r = runner();
        let node = ArrayPop {
            expr: ArrayPopExpr { array: pron(1) },
            dest: if kani::any() { Some(lhs(2)) } else { None },
        };
        r.inner.0.expect(C_POPEXPR, id(&node.expr));
        if let Some(d) = &node.dest {
            r.inner.0.expect(C_LHS, id(d));
        }
        let out = r.visit_array_pop(&node);
        finish!(r.inner.0, out, node);
    }
    // (harnesses that run the runner over REAL nested blocks / parameter lists were removed: CBMC needs > 30 min or runs out of
    //  memory on them; the same methods are proved for all blocks and list lengths by the Verus unit visit_runner)
    #[kani::proof]
    #[kani::unwind(3)]
    fn visit_function_call_statement() {
        let mut r = runner();
        let node = FunctionCall {
            name: vname(1),
            args: Vec::new(),
        };
        r.inner.0.expect(C_LHS, id(&node));
        let out = r.visit_function_call_statement(&node);
        finish!(r.inner.0, out, node);
    }
}

// the runner's VisitExpr methods are pure delegations to the inner visitor: one callback, same node
pub mod c16__runner_delegation {
    use super::*;

    #[kani::proof]
    #[kani::unwind(3)]
    fn delegations_a() {
        let mut r = ExprVisitorRunner::with_inner(RFull(Core::new(0)));
        let l = lhs(1);
        let rhs = AssignmentRHS::ExpressionList(elist(2));
        let prhs = PoeticNumberAssignmentRHS::Expression(pexpr(3));
        let pnl = PoeticNumberLiteral { elems: Vec::new() };
        let elem = PoeticNumberLiteralElem::Dot;
        let push = ArrayPushRHS::ExpressionList(elist(4));
        let pop = ArrayPopExpr { array: pron(5) };
        r.inner.0.expect(C_LHS, id(&l));
        r.inner.0.expect(C_RHS, id(&rhs));
        r.inner.0.expect(C_MISC, id(&prhs));
        r.inner.0.expect(C_PNL, id(&pnl));
        r.inner.0.expect(C_PNL, id(&elem));
        r.inner.0.expect(C_RHS, id(&push));
        r.inner.0.expect(C_POPEXPR, id(&pop));
        let one = |c: u8| Ok(Log::default().combine_one(c));
        assert!(r.visit_assignment_lhs(&l) == one(C_LHS));
        assert!(r.visit_assignment_rhs(&rhs) == one(C_RHS));
        assert!(r.visit_poetic_number_assignment_rhs(&prhs) == one(C_MISC));
        assert!(r.visit_poetic_number_literal(&pnl) == one(C_PNL));
        assert!(r.visit_poetic_number_literal_elem(&elem) == one(C_PNL));
        assert!(r.visit_array_push_rhs(&push) == one(C_RHS));
        assert!(r.visit_array_pop_expr(&pop) == one(C_POPEXPR));
        assert!(r.inner.0.calls() == 7);
        kani::cover!(true, "end of harness reached");
        std::mem::forget((l, rhs, prhs, pnl, push, pop));
    }
    #[kani::proof]
    #[kani::unwind(3)]
    fn delegations_b() {
        let mut r = ExprVisitorRunner::with_inner(RFull(Core::new(0)));
        let bop = BinaryOperator::Nor;
        let uop = UnaryOperator::Not;
        let el = elist(1);
        let e = pexpr(2);
        let p = pron(3);
        let be = BinaryExpression {
            operator: bop,
            lhs: Box::new(pexpr(4)),
            rhs: Box::new(elist(5)),
        };
        let ue = UnaryExpression {
            operator: uop,
            operand: Box::new(pexpr(6)),
        };
        let sub = ArraySubscript {
            array: Box::new(pron(7)),
            subscript: Box::new(pron(8)),
        };
        r.inner.0.expect(C_BINOP, bop as usize);
        r.inner.0.expect(C_UNOP, uop as usize);
        r.inner.0.expect(C_ELIST, id(&el));
        r.inner.0.expect(C_EXPR, id(&e));
        r.inner.0.expect(C_PRIMARY, id(&p));
        r.inner.0.expect(C_BINOP, id(&be));
        r.inner.0.expect(C_UNOP, id(&ue));
        r.inner.0.expect(C_SUBSCRIPT, id(&sub));
        let one = |c: u8| Ok(Log::default().combine_one(c));
        assert!(r.visit_binary_operator(bop) == one(C_BINOP));
        assert!(r.visit_unary_operator(uop) == one(C_UNOP));
        assert!(r.visit_expression_list(&el) == one(C_ELIST));
        assert!(r.visit_expression(&e) == one(C_EXPR));
        assert!(r.visit_primary_expression(&p) == one(C_PRIMARY));
        assert!(r.visit_binary_expression(&be) == one(C_BINOP));
        assert!(r.visit_unary_expression(&ue) == one(C_UNOP));
        assert!(r.visit_array_subscript(&sub) == one(C_SUBSCRIPT));
        assert!(r.inner.0.calls() == 8);
        kani::cover!(true, "end of harness reached");
        std::mem::forget((el, e, p, be, ue, sub));
    }
    #[kani::proof]
    #[kani::unwind(3)]
    fn delegations_c() {
        let mut r = ExprVisitorRunner::with_inner(RFull(Core::new(0)));
        let lit = WithRange(LiteralExpression::Null, rng(1));
        let call = FunctionCall {
            name: vname(2),
            args: Vec::new(),
        };
        let idn = ident(3);
        let name = VariableName::Proper(ProperIdentifier(Vec::new()));
        let simple = SimpleIdentifier(String::new());
        let common = CommonIdentifier(String::new(), String::new());
        let proper = ProperIdentifier(Vec::new());
        r.inner.0.expect(C_MISC, id(&lit));
        r.inner.0.expect(C_LHS, id(&call));
        r.inner.0.expect(C_IDENT, id(&idn));
        r.inner.0.expect(C_MISC, 4);
        r.inner.0.expect(C_VARNAME, idr(&name, &rng(5)));
        r.inner.0.expect(C_IDENT, idr(&simple, &rng(6)));
        r.inner.0.expect(C_SUBSCRIPT, idr(&common, &rng(7)));
        r.inner.0.expect(C_VARNAME, idr(&proper, &rng(8)));
        let one = |c: u8| Ok(Log::default().combine_one(c));
        assert!(r.visit_literal_expression(&lit) == one(C_MISC));
        assert!(r.visit_function_call(&call) == one(C_LHS));
        assert!(r.visit_identifier(&idn) == one(C_IDENT));
        assert!(r.visit_pronoun(rng(4)) == one(C_MISC));
        assert!(r.visit_variable_name(WithRange(&name, rng(5))) == one(C_VARNAME));
        assert!(r.visit_simple_identifier(WithRange(&simple, rng(6))) == one(C_IDENT));
        assert!(r.visit_common_identifier(WithRange(&common, rng(7))) == one(C_SUBSCRIPT));
        assert!(r.visit_proper_identifier(WithRange(&proper, rng(8))) == one(C_VARNAME));
        assert!(r.inner.0.calls() == 8);
        kani::cover!(true, "end of harness reached");
        std::mem::forget((lit, call, idn, name, simple, common, proper));
    }
}

// canary: the claim "visit_mutation visits the parameter before the destination" must be refuted
#[kani::proof]
#[kani::unwind(3)]
fn canary_c16__runner_mutation_wrong_order() {
    let mut r = ExprVisitorRunner::with_inner(RFull(Core::new(0)));
    let node = Mutation {
        operator: MutationOperator::Cast,
        operand: pron(1),
        dest: Some(lhs(2)),
        param: Some(pexpr(3)),
    };
    r.inner.0.expect(C_PRIMARY, id(&node.operand));
    if let Some(p) = &node.param {
        r.inner.0.expect(C_EXPR, id(p));
    }
    if let Some(d) = &node.dest {
        r.inner.0.expect(C_LHS, id(d));
    }
    let out = r.visit_mutation(&node);
    r.inner.0.check(out);
    std::mem::forget(node);
}
