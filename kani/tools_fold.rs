//@inject src/analysis/tools.rs
// E-K harnesses for src/analysis/tools.rs (C17): the numeric constant folder on the compiled code.
//  * NumericConstant arithmetic (the expanded derive_more Add/Sub/Neg and the hand-written Mul/Div) is the IEEE
//    operation on the payload, bit for bit  — the interpreter side (Val::plus/...) is proved in val_scalar.rs,
//    so both evaluators apply the same operation;
//  * the folder on `a <op> b` with number-literal operands returns exactly `a op b` for + - * /, an error for every
//    other operator; it never reports a value for pronouns, identifiers, subscripts, pops, non-number literals.
// Literal leaves carry symbolic f64 payloads; no String payload is ever read (DESIGN.md §9.3).
use super::*;
use crate::frontend::source_range::SourceRange;

fn same_f(x: f64, y: f64) -> bool {
    x.to_bits() == y.to_bits() || (x.is_nan() && y.is_nan())
}
fn rng() -> SourceRange {
    ((1, 0), (1, 1)).into()
}
fn num(x: f64) -> Expression {
    Expression::PrimaryExpression(PrimaryExpression::Literal(WithRange(LiteralExpression::Number(x), rng())))
}
fn pron() -> Expression {
    Expression::PrimaryExpression(PrimaryExpression::Identifier(WithRange(Identifier::Pronoun, rng())))
}

pub mod c17__numeric_constant_ops {
    use super::*;
    #[kani::proof]
    #[kani::unwind(2)]
    fn add_sub_neg() {
        let a: f64 = kani::any();
        let b: f64 = kani::any();
        let (x, y) = (NumericConstant { value: a }, NumericConstant { value: b });
        assert!(same_f((x + y).value, a + b));
        assert!(same_f((x - y).value, a - b));
        assert!(same_f((-x).value, -a));
        assert!(same_f(NumericConstant::from(a).value, a));
        kani::cover!(true, "end of harness reached");
    }
    #[kani::proof]
    #[kani::unwind(2)]
    #[kani::solver(cvc5)]
    fn mul() {
        let a: f64 = kani::any();
        let b: f64 = kani::any();
        let (x, y) = (NumericConstant { value: a }, NumericConstant { value: b });
        assert!(same_f((x * y).value, a * b));
        kani::cover!(true, "end of harness reached");
    }
    #[kani::proof]
    #[kani::unwind(2)]
    #[kani::solver(cvc5)]
    fn div() {
        let a: f64 = kani::any();
        let b: f64 = kani::any();
        let (x, y) = (NumericConstant { value: a }, NumericConstant { value: b });
        assert!(same_f((x / y).value, a / b));
        kani::cover!(true, "end of harness reached");
    }
}

pub mod c17__folder {
    use super::*;

    // (the folder on binary expressions goes through VisitExpr::visit_expression -> visit_binary_expression ->
    //  iterator adapters: > 5 min of symbolic execution per harness, so that part is discharged by the Verus
    //  unit `folder`; kept here: what completes)
    //@slow-begin
    #[kani::proof]
    #[kani::unwind(3)]
    fn unary() {
        let a: f64 = kani::any();
        let neg = Expression::UnaryExpression(UnaryExpression {
            operator: UnaryOperator::Minus,
            operand: Box::new(num(a)),
        });
        let not = Expression::UnaryExpression(UnaryExpression {
            operator: UnaryOperator::Not,
            operand: Box::new(num(a)),
        });
        assert!(matches!(NumericConstantFolder.visit_expression(&neg), Ok(c) if same_f(c.value, -a)));
        assert!(NumericConstantFolder.visit_expression(&not).is_err());
        kani::cover!(true, "end of harness reached");
        std::mem::forget((neg, not));
    }
    //@slow-end

    /// an assignment-level list with more than one element is not a single constant
    #[kani::proof]
    #[kani::unwind(4)]
    fn expression_list_rule() {
        let a: f64 = kani::any();
        let single = ExpressionList {
            first: num(a),
            rest: Vec::new(),
        };
        let multi = ExpressionList {
            first: num(a),
            rest: vec![num(a)],
        };
        assert!(matches!(NumericConstantFolder.visit_expression_list(&single), Ok(c) if same_f(c.value, a)));
        assert!(NumericConstantFolder.visit_expression_list(&multi).is_err());
        kani::cover!(true, "end of harness reached");
        std::mem::forget((single, multi));
    }
}

#[kani::proof]
#[kani::unwind(2)]
fn canary_c17__sub_commutes() {
    let a: f64 = kani::any();
    let b: f64 = kani::any();
    let (x, y) = (NumericConstant { value: a }, NumericConstant { value: b });
    // deliberately wrong: claims x - y computes b - a
    assert!(same_f((x - y).value, b - a));
}
