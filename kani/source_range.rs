//@inject src/frontend/source_range.rs
// E-K harnesses for src/frontend/source_range.rs (C12): the SourceRange algebra on the compiled code, all u32
// line/column values.  Loop-free (normalized/new recurse at most once) => complete.  In harnesses named
// `*__terminates` a failed unwinding assertion (recursion deeper than the bound 3) is itself the violation:
// SourceRange::new <-> normalized must bottom out after one swap (C01: parsing terminates).
use super::*;

fn any_loc() -> SourceLocation {
    SourceLocation::new(kani::any(), kani::any())
}
fn any_range() -> SourceRange {
    // any value the public constructors can produce
    SourceRange::from((any_loc(), any_loc()))
}
fn le(a: SourceLocation, b: SourceLocation) -> bool {
    a.line < b.line || (a.line == b.line && a.column <= b.column)
}
fn min(a: SourceLocation, b: SourceLocation) -> SourceLocation {
    if le(a, b) {
        a
    } else {
        b
    }
}
fn max(a: SourceLocation, b: SourceLocation) -> SourceLocation {
    if le(a, b) {
        b
    } else {
        a
    }
}
fn same(a: SourceLocation, b: SourceLocation) -> bool {
    a.line == b.line && a.column == b.column
}

pub mod c01_c12__source_range {
    use super::*;

    /// constructors normalise: start <= end, and they are the two given locations
    #[kani::proof]
    #[kani::unwind(3)]
    fn new_is_normalised__terminates() {
        let (a, b) = (any_loc(), any_loc());
        let r = SourceRange::from((a, b));
        assert!(le(r.start(), r.end()));
        assert!(same(r.start(), min(a, b)) && same(r.end(), max(a, b)));
        let r2 = a.to(b);
        assert!(same(r2.start(), r.start()) && same(r2.end(), r.end()));
        let r3 = SourceRange::from(((a.line, a.column), (b.line, b.column)));
        assert!(same(r3.start(), r.start()) && same(r3.end(), r.end()));
        assert!(Line::line(&r) == r.start().line);
        kani::cover!(true, "end of harness reached");
    }
    /// derived Ord on SourceLocation is (line, column) lexicographic
    #[kani::proof]
    #[kani::unwind(3)]
    fn location_order() {
        let (a, b) = (any_loc(), any_loc());
        assert!((a <= b) == le(a, b));
        assert!((a == b) == same(a, b));
        kani::cover!(true, "end of harness reached");
    }
    /// concat covers both ranges: smallest start ... and it is commutative; the end is the end of the later-starting
    /// range (for ranges met in source order that is the larger end)
    #[kani::proof]
    #[kani::unwind(3)]
    fn concat() {
        let (x, y) = (any_range(), any_range());
        let c = x.clone().concat(y.clone());
        assert!(same(c.start(), min(x.start(), y.start())));
        let d = y.clone().concat(x.clone());
        assert!(same(c.start(), d.start()) && same(c.end(), d.end())); // commutative
        // tokens do not overlap: when x ends before y starts the result is exactly x.start .. y.end
        if le(x.end(), y.start()) {
            assert!(same(c.start(), x.start()) && same(c.end(), y.end()));
            assert!(le(c.start(), c.end()));
        }
        kani::cover!(true, "end of harness reached");
    }
    #[kani::proof]
    #[kani::unwind(3)]
    fn range_to_location() {
        let x = any_range();
        let l = any_loc();
        let r = x.clone().to(l);
        assert!(same(r.start(), min(x.start(), l)));
        if le(x.end(), l) {
            assert!(same(r.end(), l));
            // idempotent
            let r2 = r.clone().to(l);
            assert!(same(r2.start(), r.start()) && same(r2.end(), r.end()));
        }
        kani::cover!(true, "end of harness reached");
    }
}

#[kani::proof]
#[kani::unwind(3)]
fn canary_c12__ranges_never_swap() {
    let (a, b) = (any_loc(), any_loc());
    let r = SourceRange::from((a, b));
    // deliberately wrong: claims the first argument is always the start
    assert!(same(r.start(), a));
}
