use super::*;
use crate::frontend::source_range::SourceRange;

#[derive(Default)]
struct Log(u64);
impl Combine for Log { fn combine(self, o: Self) -> Self { Log(self.0 * 16 + o.0) } }

struct Rec { fail_at: u8, n: u8, a: *const u8, b: *const u8 }
impl Visit for Rec { type Output = Log; type Error = u8; }
impl Rec {
    fn step(&mut self, code: u64) -> std::result::Result<Log, u8> {
        self.n += 1;
        if self.n == self.fail_at { Err(self.n) } else { Ok(Log(code)) }
    }
}
// overrides everything except visit_binary_expression and visit_primary_expression
impl VisitExpr for Rec {
    fn visit_expression(&mut self, e: &Expression) -> Result<Self> {
        assert!(e as *const _ as *const u8 == self.a);
        self.step(1)
    }
    fn visit_binary_operator(&mut self, _o: BinaryOperator) -> Result<Self> { self.step(2) }
    fn visit_expression_list(&mut self, e: &ExpressionList) -> Result<Self> {
        assert!(e as *const _ as *const u8 == self.b);
        self.step(3)
    }
    fn visit_array_pop_expr(&mut self, a: &ArrayPopExpr) -> Result<Self> {
        assert!(a as *const _ as *const u8 == self.a);
        self.step(4)
    }
}

fn rng() -> SourceRange { ((1, 0), (1, 1)).into() }
fn pron() -> PrimaryExpression { PrimaryExpression::Identifier(WithRange(Identifier::Pronoun, rng())) }

#[kani::proof]
#[kani::unwind(3)]
fn default_visit_binary_expression() {
    let e = BinaryExpression { operator: BinaryOperator::Minus, lhs: Box::new(pron().into()), rhs: Box::new(ExpressionList { first: pron().into(), rest: Vec::new() }) };
    let fail_at: u8 = kani::any();
    let mut r = Rec { fail_at, n: 0, a: &*e.lhs as *const _ as *const u8, b: &*e.rhs as *const _ as *const u8 };
    let wrapped = Expression::BinaryExpression(e);
    // go through the enum so the Box pointers are read back out of the union payload
    let out = match &wrapped { Expression::BinaryExpression(e) => VisitExpr::visit_binary_expression(&mut r, e), _ => Err(99) };
    match out {
        Ok(Log(code)) => { assert!(fail_at == 0 || fail_at > 3); assert!(code == (1 * 16 + 2) * 16 + 3); assert!(r.n == 3); }
        Err(k) => { assert!(k == fail_at && k >= 1 && k <= 3); assert!(r.n == k); }
    }
    kani::cover!(true);
    std::mem::forget(wrapped);
}

#[kani::proof]
#[kani::unwind(3)]
fn default_visit_primary_expression_pop() {
    let inner = Box::new(ArrayPopExpr { array: pron() });
    let addr = &*inner as *const _ as *const u8;
    let p = PrimaryExpression::ArrayPop(inner);
    let mut r = Rec { fail_at: 0, n: 0, a: addr, b: addr };
    let out = VisitExpr::visit_primary_expression(&mut r, &p);
    match out { Ok(Log(code)) => { assert!(code == 4); assert!(r.n == 1); } Err(_) => assert!(false) }
    kani::cover!(true);
    std::mem::forget(p);
}
