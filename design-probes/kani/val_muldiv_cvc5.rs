use super::*;
fn same(x: f64, y: f64) -> bool { x.to_bits() == y.to_bits() || (x.is_nan() && y.is_nan()) }

#[kani::proof]
#[kani::unwind(2)]
fn div_ff() {
    let a: f64 = kani::any();
    let b: f64 = kani::any();
    let r = Val::Number(a).divide(&Val::Number(b));
    let ok = match &r { Val::Number(x) => same(*x, a / b), _ => false };
    std::mem::forget(r);
    assert!(ok);
}
#[kani::proof]
#[kani::unwind(2)]
fn mul_ff() {
    let a: f64 = kani::any();
    let b: f64 = kani::any();
    let r = Val::Number(a).multiply(&Val::Number(b));
    let ok = match &r { Val::Number(x) => same(*x, a * b), _ => false };
    std::mem::forget(r);
    assert!(ok);
}
