use super::*;

fn same(x: f64, y: f64) -> bool { x.to_bits() == y.to_bits() || (x.is_nan() && y.is_nan()) }

#[kani::proof]
#[kani::unwind(3)]
fn fold_minus_ff() {
    let a: f64 = kani::any();
    let b: f64 = kani::any();
    let c: f64 = kani::any();
    let mut calls = 0u32;
    let vals = [b, c];
    let rhs = vals.iter().map(|v| { let v = *v; move |n: &mut u32| { *n += 1; Ok(Val::Number(v)) } });
    let r = binary_operator_fold(BinaryOperator::Minus, Val::Number(a), rhs, &mut calls);
    let ok = match &r { Ok(Val::Number(x)) => same(*x, (a - b) - c), _ => false };
    std::mem::forget(r);
    assert!(ok);
    assert!(calls == 2);
}

#[kani::proof]
#[kani::unwind(3)]
fn fold_and_short_circuit() {
    let a: bool = kani::any();
    let b: f64 = kani::any();
    let mut calls = 0u32;
    let rhs = std::iter::once(move |n: &mut u32| { *n += 1; Ok(Val::Number(b)) });
    let r = binary_operator_fold(BinaryOperator::And, Val::Boolean(a), rhs, &mut calls);
    let ok = match &r { Ok(Val::Boolean(x)) => *x == (a && b != 0.0), _ => false };
    std::mem::forget(r);
    assert!(ok);
    assert!(calls == if a { 1 } else { 0 });
}
