use super::*;
use crate::frontend::source_range::SourceRange;

fn rng() -> SourceRange { ((1, 0), (1, 1)).into() }
fn lit_bool(b: bool) -> Expression {
    Expression::PrimaryExpression(PrimaryExpression::Literal(WithRange(LiteralExpression::Boolean(b), rng())))
}

#[kani::proof]
#[kani::unwind(4)]
fn loop_break() {
    let env = Environment::refcell_raw(&b""[..], Vec::<u8>::new());
    let mut ex = ExecStmt::new(&env);
    let w = While { condition: lit_bool(true), block: Block::NonEmpty(vec![Statement::Break(Break(rng()))]) };
    let r = ex.visit_while(&w);
    assert!(r.is_ok());
    assert!(ex.control_flow_state.is_normal());
    std::mem::forget(w);
    std::mem::forget(ex);
    std::mem::forget(env);
}
