use super::*;

fn stub_match_keyword<'a>(_word: &'a str) -> Option<TokenType<'a>> {
    match kani::any::<u8>() {
        0 => None,
        1 => Some(TokenType::Else),
        2 => Some(TokenType::Is),
        _ => Some(TokenType::CommonVariablePrefix),
    }
}
fn stub_is_alphabetic(c: char) -> bool { c.is_ascii_alphabetic() }
fn stub_is_numeric(c: char) -> bool { c.is_ascii_digit() }
fn stub_is_whitespace(c: char) -> bool { c.is_ascii_whitespace() }

#[kani::proof]
#[kani::unwind(6)]
#[kani::stub(match_keyword, stub_match_keyword)]
#[kani::stub(char::is_alphabetic, stub_is_alphabetic)]
#[kani::stub(char::is_numeric, stub_is_numeric)]
#[kani::stub(char::is_whitespace, stub_is_whitespace)]
fn lex_sym3() {
    let bytes: [u8; 3] = kani::any();
    kani::assume(bytes[0] < 128 && bytes[1] < 128 && bytes[2] < 128);
    kani::assume(!bytes[0].is_ascii_digit() && !bytes[1].is_ascii_digit() && bytes[0] != b'.' && bytes[1] != b'.'&& bytes[2] != b'.');
    let s = unsafe { std::str::from_utf8_unchecked(&bytes) };
    let mut lx = Lexer::new(s);
    let t1 = lx.next();
    let t2 = lx.next();
    std::mem::forget(t1);
    std::mem::forget(t2);
}
