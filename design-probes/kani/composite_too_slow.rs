use super::*;
use crate::exec::val::Val;
use crate::exec::produce_val::{binary_operator_fold, ProduceVal};
use crate::exec::environment::Environment;
use crate::frontend::source_range::SourceRange;

fn rng() -> SourceRange { ((1, 0), (1, 1)).into() }
fn num(n: f64) -> Expression {
    Expression::PrimaryExpression(PrimaryExpression::Literal(WithRange(LiteralExpression::Number(n), rng())))
}
fn same(x: f64, y: f64) -> bool { x.to_bits() == y.to_bits() || (x.is_nan() && y.is_nan()) }

#[kani::proof]
#[kani::unwind(3)]
fn fold_div_agrees() {
    let a: f64 = kani::any();
    let b: f64 = kani::any();
    let e = BinaryExpression { operator: BinaryOperator::Divide, lhs: Box::new(num(a)), rhs: Box::new(ExpressionList { first: num(b), rest: Vec::new() }) };
    let folded = NumericConstantFolder.visit_binary_expression(&e);
    let mut unit = ();
    let rhs = std::iter::once(move |_: &mut ()| Ok(Val::Number(b)));
    let run = binary_operator_fold(BinaryOperator::Divide, Val::Number(a), rhs, &mut unit);
    let ok = match (&folded, &run) { (Ok(c), Ok(Val::Number(x))) => same(c.value, *x), _ => false };
    std::mem::forget(e);
    std::mem::forget(run);
    assert!(ok);
}

#[kani::proof]
#[kani::unwind(3)]
fn produce_div_literal() {
    let a: f64 = kani::any();
    let b: f64 = kani::any();
    let e = BinaryExpression { operator: BinaryOperator::Divide, lhs: Box::new(num(a)), rhs: Box::new(ExpressionList { first: num(b), rest: Vec::new() }) };
    let env = Environment::refcell_raw(&b""[..], Vec::<u8>::new());
    let run = ProduceVal::new(&env).visit_binary_expression(&e);
    let ok = match &run { Ok(p) => match &p.0 { Val::Number(x) => same(*x, a / b), _ => false }, _ => false };
    std::mem::forget(e);
    std::mem::forget(run);
    std::mem::forget(env);
    assert!(ok);
}
