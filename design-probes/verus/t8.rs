use vstd::prelude::*;
verus! {

#[verifier::external_body]
pub struct Statement { _p: u8 }
pub enum Event { Stmt(Statement), Cond(bool), Enter, Leave, Then, Else }
pub struct RuntimeError { pub x: u8 }
pub enum Block { Empty(u32), NonEmpty(Vec<Statement>) }

enum ControlFlowState { Normal, Breaking, Continuing, Returning }
impl ControlFlowState {
    fn skip_rest_of_block(&self) -> (r: bool) ensures r == !(self is Normal) {
        match self {
            ControlFlowState::Breaking => true,
            ControlFlowState::Continuing => true,
            ControlFlowState::Returning => true,
            _ => false,
        }
    }
}

pub struct ExecStmt { control_flow_state: ControlFlowState, trace: Ghost<Seq<Event>>, }

pub open spec fn stmts(b: &Block) -> Seq<Statement> { match b { Block::Empty(_) => Seq::empty(), Block::NonEmpty(s) => s@ } }

impl ExecStmt {
    #[verifier::external_body]
    fn visit_statement(&mut self, s: &Statement) -> (r: Result<(), RuntimeError>)
        requires old(self).control_flow_state is Normal,
        ensures final(self).trace@ == old(self).trace@.push(Event::Stmt(*s)),
    { unimplemented!() }

    // ran(k): statements 0..k ran, in order
    pub open spec fn ran(pre: Seq<Event>, ss: Seq<Statement>, k: int) -> Seq<Event> decreases k {
        if k <= 0 { pre } else { Self::ran(pre, ss, k - 1).push(Event::Stmt(ss[k - 1])) }
    }

    fn visit_block(&mut self, b: &Block) -> (r: Result<(), RuntimeError>)
        requires old(self).control_flow_state is Normal,
        ensures exists|k: int| 0 <= k <= stmts(b).len() && final(self).trace@ == Self::ran(old(self).trace@, stmts(b), k)
            && (r is Ok && final(self).control_flow_state is Normal ==> k == stmts(b).len()),
    {
        match b {
            Block::Empty(_) => Ok(()),
            Block::NonEmpty(statements) => {
                for s in statements {
                    self.visit_statement(s)?;
                    if self.control_flow_state.skip_rest_of_block() {
                        break;
                    }
                }
                Ok(())
            }
        }
    }
}

} // verus!
fn main() {}
