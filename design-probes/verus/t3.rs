use vstd::prelude::*;
verus! {

pub enum Event { Cond(bool), Push, Pop, BlockRun }

#[verifier::external_body]
pub struct Env { _p: u8 }
#[verifier::external_body]
pub struct Expression { _p: u8 }
#[verifier::external_body]
pub struct Block { _p: u8 }
pub struct RuntimeError { pub x: u8 }

#[derive(Debug)]
enum ControlFlowState {
    Normal,
    Breaking,
    Continuing,
    Returning,
}

pub struct ExecStmt {
    env: Env,
    control_flow_state: ControlFlowState,
    trace: Ghost<Seq<Event>>,
}

impl ExecStmt {
    #[verifier::external_body]
    fn eval_truthy(&mut self, e: &Expression) -> (r: Result<bool, RuntimeError>)
        ensures
            final(self).control_flow_state == old(self).control_flow_state,
            match r { Ok(b) => final(self).trace@ == old(self).trace@.push(Event::Cond(b)), Err(_) => true },
    { unimplemented!() }

    #[verifier::external_body]
    fn push_scope(&mut self)
        ensures final(self).control_flow_state == old(self).control_flow_state,
            final(self).trace@ == old(self).trace@.push(Event::Push),
    { unimplemented!() }
    #[verifier::external_body]
    fn pop_scope(&mut self)
        ensures final(self).control_flow_state == old(self).control_flow_state,
            final(self).trace@ == old(self).trace@.push(Event::Pop),
    { unimplemented!() }

    #[verifier::external_body]
    fn visit_block(&mut self, b: &Block) -> (r: Result<(), RuntimeError>)
        requires old(self).control_flow_state is Normal,
        ensures
            match r { Ok(_) => final(self).trace@ == old(self).trace@.push(Event::BlockRun), Err(_) => true },
    { unimplemented!() }

    #[verifier::exec_allows_no_decreases_clause]
    // loop-local spec: number of events grows, state on exit is Normal or Returning
    fn visit_loop<const INVERT: bool>(
        &mut self,
        condition: &Expression,
        block: &Block,
    ) -> (r: Result<(), RuntimeError>)
        requires old(self).control_flow_state is Normal,
        ensures r is Ok ==> (final(self).control_flow_state is Normal || final(self).control_flow_state is Returning),
    {
        while INVERT ^ self.eval_truthy(&condition)?
            invariant_except_break self.control_flow_state is Normal,
            ensures self.control_flow_state is Normal || self.control_flow_state is Returning,
        {
            self.push_scope();
            self.visit_block(block)?;
            self.pop_scope();

            match self.control_flow_state {
                ControlFlowState::Normal => {}
                ControlFlowState::Continuing => self.control_flow_state = ControlFlowState::Normal,
                ControlFlowState::Breaking => {
                    self.control_flow_state = ControlFlowState::Normal;
                    break;
                }
                ControlFlowState::Returning => break,
            }
        }
        Ok(())
    }
}

} // verus!
fn main() {}
