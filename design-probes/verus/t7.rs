use vstd::prelude::*;
use vstd::std_specs::cmp::PartialEqSpec;
verus! {

pub enum Val { Undefined, Null, Boolean(bool), Number(f64) }
pub struct RuntimeError { pub x: u8 }
#[derive(Copy, Clone, PartialEq, Eq)]
pub enum BinaryOperator { Plus, Minus, And, Or, Nor }

pub struct Thunk { pub calls: Ghost<nat>, pub val: Ghost<Result<Val, RuntimeError>> }
impl Thunk {
    #[verifier::external_body]
    fn call(&mut self) -> (r: Result<Val, RuntimeError>)
        ensures r == old(self).val@, final(self).calls@ == old(self).calls@ + 1, final(self).val@ == old(self).val@
    { unimplemented!() }
}

pub open spec fn truthy(v: Val) -> bool { match v { Val::Undefined => false, Val::Null => false, Val::Boolean(b) => b, Val::Number(n) => !n.eq_spec(&0.0f64) } }
pub uninterp spec fn spec_plus(a: Val, b: Val) -> Val;
pub uninterp spec fn spec_minus(a: Val, b: Val) -> Val;

impl Val {
    #[verifier::external_body]
    fn is_truthy(&self) -> (r: bool) ensures r == truthy(*self) { unimplemented!() }
    #[verifier::external_body]
    fn plus(&self, o: &Val) -> (r: Val) ensures r == spec_plus(*self, *o) { unimplemented!() }
    #[verifier::external_body]
    fn subtract(&self, o: &Val) -> (r: Val) ensures r == spec_minus(*self, *o) { unimplemented!() }
}

fn op(operator: BinaryOperator, a: Val, b: &mut Thunk) -> (r: Result<Val, RuntimeError>)
    ensures
        final(b).val@ == old(b).val@,
        match operator {
            BinaryOperator::And => final(b).calls@ == old(b).calls@ + (if truthy(a) { 1nat } else { 0nat }),
            BinaryOperator::Or => final(b).calls@ == old(b).calls@ + (if truthy(a) { 0nat } else { 1nat }),
            BinaryOperator::Nor => final(b).calls@ == old(b).calls@ + (if truthy(a) { 0nat } else { 1nat }),
            _ => final(b).calls@ == old(b).calls@ + 1,
        },
        match (operator, old(b).val@) {
            (BinaryOperator::Plus, Ok(bv)) => r == Ok::<Val, RuntimeError>(spec_plus(a, bv)),
            (BinaryOperator::Minus, Ok(bv)) => r == Ok::<Val, RuntimeError>(spec_minus(a, bv)),
            (BinaryOperator::And, Ok(bv)) => r == Ok::<Val, RuntimeError>(Val::Boolean(truthy(a) && truthy(bv))),
            (BinaryOperator::Or, Ok(bv)) => r == Ok::<Val, RuntimeError>(Val::Boolean(truthy(a) || truthy(bv))),
            (BinaryOperator::Nor, Ok(bv)) => r == Ok::<Val, RuntimeError>(Val::Boolean(!truthy(a) && !truthy(bv))),
            (BinaryOperator::And, Err(e)) => if truthy(a) { r == Err::<Val, RuntimeError>(e) } else { r == Ok::<Val, RuntimeError>(Val::Boolean(false)) },
            (BinaryOperator::Or, Err(e)) => if truthy(a) { r == Ok::<Val, RuntimeError>(Val::Boolean(true)) } else { r == Err::<Val, RuntimeError>(e) },
            (BinaryOperator::Nor, Err(e)) => if truthy(a) { r == Ok::<Val, RuntimeError>(Val::Boolean(false)) } else { r == Err::<Val, RuntimeError>(e) },
            (_, Err(e)) => r == Err::<Val, RuntimeError>(e),
        },
{
        match operator {
            BinaryOperator::Plus => Ok(a.plus(&b.call()?)),
            BinaryOperator::Minus => Ok(a.subtract(&b.call()?)),

            BinaryOperator::And => Ok(Val::Boolean(a.is_truthy() && b.call()?.is_truthy())),
            BinaryOperator::Or => Ok(Val::Boolean(a.is_truthy() || b.call()?.is_truthy())),
            BinaryOperator::Nor => Ok(Val::Boolean(!a.is_truthy() && !b.call()?.is_truthy())),
        }
}

} // verus!
fn main() {}
