use vstd::prelude::*;
use std::rc::Rc;
use vstd::std_specs::cmp::PartialEqSpec;

#[derive(Clone, Debug, PartialEq)]
pub struct Array { x: u8 }

verus! {

#[verifier::external_type_specification]
#[verifier::external_body]
pub struct ExArray(Array);

pub enum Cow<'a, B> { Borrowed(&'a B), Owned(B) }
impl<'a, B> Cow<'a, B> {
    pub fn as_ref(&self) -> (r: &B)
        ensures *r == self.view()
    { match self { Cow::Borrowed(b) => b, Cow::Owned(b) => b } }
    pub open spec fn view(&self) -> B { match self { Cow::Borrowed(b) => **b, Cow::Owned(b) => *b } }
}

pub enum Val {
    Undefined,
    Null,
    Boolean(bool),
    Number(f64),
    String(Rc<String>),
    Array(Rc<Array>),
}

pub enum SVal { Undefined, Null, Boolean(bool), Number(f64), String(Seq<char>), Array(f64) }
pub uninterp spec fn spec_parse_f64(s: Seq<char>) -> Option<f64>;
pub uninterp spec fn spec_arr_len(a: Array) -> f64;

#[verifier::external_body]
fn parse_f64(s: &Rc<String>) -> (r: Option<f64>) ensures r == spec_parse_f64(s@) { s.parse::<f64>().ok() }

#[verifier::external_body]
fn val_from_string(s: String) -> (r: Val) ensures r.v() == SVal::String(s@) { Val::String(Rc::new(s)) }

pub open spec fn disc(v: Val) -> int { match v { Val::Undefined => 0, Val::Null => 1, Val::Boolean(_) => 2, Val::Number(_) => 3, Val::String(_) => 4, Val::Array(_) => 5 } }
#[verifier::external_body]
fn discriminant(v: &Val) -> (r: u8) ensures r as int == Val::sdisc(v.v()) { unimplemented!() }

impl Val {
    pub open spec fn v(self) -> SVal { match self { Val::Undefined => SVal::Undefined, Val::Null => SVal::Null, Val::Boolean(b) => SVal::Boolean(b), Val::Number(n) => SVal::Number(n), Val::String(s) => SVal::String(s@), Val::Array(a) => SVal::Array(spec_arr_len(*a)) } }
    pub open spec fn spec_truthy(self) -> bool { match self { Val::Undefined => false, Val::Null => false, Val::Boolean(b) => b, Val::Number(n) => !(n.eq_spec(&0.0f64)), _ => true } }

    #[verifier::external_body]
    pub fn is_truthy(&self) -> (r: bool) ensures r == Self::struthy(self.v()) { unimplemented!() }

    #[verifier::external_body]
    pub fn decay(&self) -> (r: Cow<'_, Val>)
        ensures r.view().v() == (match *self { Val::Array(a) => SVal::Number(spec_arr_len(*a)), v => v.v() })
    { unimplemented!() }


    pub open spec fn view2(r: Option<(Cow<'_, Val>, Cow<'_, Val>)>) -> Option<(SVal, SVal)> {
        match r { None => None, Some(p) => Some((p.0.view().v(), p.1.view().v())) }
    }
    pub open spec fn swap(r: Option<(SVal, SVal)>) -> Option<(SVal, SVal)> {
        match r { None => None, Some(p) => Some((p.1, p.0)) }
    }
    pub open spec fn sdisc(v: SVal) -> int { match v { SVal::Undefined => 0, SVal::Null => 1, SVal::Boolean(_) => 2, SVal::Number(_) => 3, SVal::String(_) => 4, SVal::Array(_) => 5 } }
    pub open spec fn struthy(v: SVal) -> bool { match v { SVal::Undefined => false, SVal::Null => false, SVal::Boolean(b) => b, SVal::Number(n) => !(n.eq_spec(&0.0f64)), _ => true } }
    pub open spec fn spec_cc_dir(a: SVal, b: SVal) -> Option<(SVal, SVal)> {
        match (a, b) {
            (SVal::Undefined, SVal::Null) => Some((SVal::Null, b)),
            (SVal::Undefined, _) => Some((a, b)),
            (SVal::Array(x), SVal::Null) => Some((SVal::Number(x), SVal::Number(0.0))),
            (SVal::Array(x), _) => Some((SVal::Number(x), b)),
            (SVal::Boolean(_), SVal::Null) => Some((a, SVal::Boolean(false))),
            (SVal::Number(_), SVal::Boolean(_)) => Some((SVal::Boolean(Self::struthy(a)), b)),
            (SVal::Number(_), SVal::Null) => Some((a, SVal::Number(0.0))),
            (SVal::String(s), SVal::Number(_)) => match spec_parse_f64(s) { Some(n) => Some((SVal::Number(n), b)), None => None },
            (SVal::String(s), SVal::Boolean(_)) => Some((SVal::Boolean(s.len() != 0), b)),
            (SVal::String(s), SVal::Null) => Some((a, SVal::String(Seq::empty()))),
            (SVal::String(s), _) => Some((a, b)),
            _ => None,
        }
    }
    pub open spec fn handled_dir(a: SVal, b: SVal) -> bool {
        match (a, b) {
            (SVal::Undefined, _) => true,
            (SVal::Array(_), _) => true,
            (SVal::Boolean(_), SVal::Null) => true,
            (SVal::Number(_), SVal::Boolean(_)) => true,
            (SVal::Number(_), SVal::Null) => true,
            (SVal::String(_), _) => true,
            _ => false,
        }
    }
    pub open spec fn spec_cc(a: SVal, b: SVal) -> Option<(SVal, SVal)> {
        if Self::sdisc(a) == Self::sdisc(b) { Some((a, b)) }
        else if Self::handled_dir(a, b) { Self::spec_cc_dir(a, b) }
        else { Self::swap(Self::spec_cc_dir(b, a)) }
    }

    #[verifier::exec_allows_no_decreases_clause]
    fn cmp_coerced<'a>(&'a self, other: &'a Val) -> (r: Option<(Cow<'a, Val>, Cow<'a, Val>)>)
        ensures Self::view2(r) == Self::spec_cc(self.v(), other.v())
    {
        if discriminant(self) == discriminant(other) {
            Some((Cow::Borrowed(self), Cow::Borrowed(other)))
        } else {
            match self {
                Val::Undefined => match other {
                    Val::Null => Some((Cow::Owned(Val::Null), Cow::Borrowed(other))),
                    _ => Some((Cow::Borrowed(self), Cow::Borrowed(other))),
                },
                Val::Array(_) => match other {
                    Val::Null => Some((self.decay(), Cow::Owned(Val::Number(0.0)))),
                    _ => Some((self.decay(), Cow::Borrowed(other))),
                },

                Val::Null => other.cmp_coerced(self).map(|x: (Cow<'a, Val>, Cow<'a, Val>)| -> (y: (Cow<'a, Val>, Cow<'a, Val>)) ensures y.0 == x.1, y.1 == x.0 { (x.1, x.0) }),

                Val::Boolean(_) => match other {
                    Val::Null => Some((Cow::Borrowed(self), Cow::Owned(Val::Boolean(false)))),
                    _ => other.cmp_coerced(self).map(|x: (Cow<'a, Val>, Cow<'a, Val>)| -> (y: (Cow<'a, Val>, Cow<'a, Val>)) ensures y.0 == x.1, y.1 == x.0 { (x.1, x.0) }),
                },

                Val::Number(_) => match other {
                    Val::Boolean(_) => Some((
                        Cow::Owned(Val::Boolean(self.is_truthy())),
                        Cow::Borrowed(other),
                    )),
                    Val::Null => Some((Cow::Borrowed(self), Cow::Owned(Val::Number(0.0)))),
                    _ => other.cmp_coerced(self).map(|x: (Cow<'a, Val>, Cow<'a, Val>)| -> (y: (Cow<'a, Val>, Cow<'a, Val>)) ensures y.0 == x.1, y.1 == x.0 { (x.1, x.0) }),
                },

                Val::String(s) => match other {
                    Val::Number(_) => parse_f64(s)
                        .map(|n: f64| -> (y: (Cow<'a, Val>, Cow<'a, Val>)) ensures y.0 == Cow::<Val>::Owned(Val::Number(n)), y.1 == Cow::Borrowed(other) { (Cow::Owned(Val::Number(n)), Cow::Borrowed(other)) }),
                    Val::Boolean(_) => Some((
                        Cow::Owned(Val::Boolean(!s.is_empty())),
                        Cow::Borrowed(other),
                    )),
                    Val::Null => Some((Cow::Borrowed(self), Cow::Owned(val_from_string(String::new())))),
                    _ => Some((Cow::Borrowed(self), Cow::Borrowed(other))),
                },
            }
        }
    }
}

} // verus!
fn main() {}
