use vstd::prelude::*;
verus! {
pub enum V { A, B(u8), C(u8) }
fn t1(x: &mut V) -> (r: bool)
    ensures !(*old(x) is B) ==> *final(x) == *old(x)
{
    match *x {
        V::B(ref s) if *s > 3 => { *x = V::A; true }
        V::B(ref s) if *s <= 3 => { *x = V::C(1); true }
        _ => false,
    }
}
fn t2(x: &mut V) -> (r: bool)
    ensures !(*old(x) is B) ==> *final(x) == *old(x)
{
    match &*x {
        V::B(s) if *s > 3 => { *x = V::A; true }
        V::B(s) if *s <= 3 => { *x = V::C(1); true }
        _ => false,
    }
}
fn t3(x: &mut V) -> (r: bool)
    ensures !(*old(x) is B) ==> *final(x) == *old(x)
{
    match x {
        V::B(s) => { if *s > 3 { *x = V::A; true } else { *x = V::C(1); true } }
        _ => false,
    }
}
fn t4(x: &mut V) -> (r: bool)
    ensures !(*old(x) is B) ==> *final(x) == *old(x)
{
    if let V::B(s) = &*x { if *s > 3 { *x = V::A; return true; } }
    if let V::B(s) = &*x { if *s <= 3 { *x = V::C(1); return true; } }
    false
}
}
fn main() {}
