#![feature(const_destruct)]
use vstd::prelude::*;
verus! {

pub assume_specification<T, U, D: FnOnce() -> U + std::marker::Destruct, F: FnOnce(T) -> U + std::marker::Destruct>[Option::<T>::map_or_else](o: Option<T>, d: D, f: F) -> (r: U)
    requires match o { None => d.requires(()), Some(t) => f.requires((t,)) },
    ensures match o { None => d.ensures((), r), Some(t) => f.ensures((t,), r) };

pub struct Lhs { pub x: u8 }
pub struct Mutation { pub dest: Option<Lhs>, pub k: u8 }

pub struct Runner { pub count: u64 }

pub fn leaf<T>(_t: T) -> (r: Result<u64, ()>) ensures r == Ok::<u64,()>(0u64) { Ok(0) }

impl Runner {
    #[verifier::external_body]
    fn visit_assignment_lhs(&mut self, a: &Lhs) -> (r: Result<u64, ()>)
        ensures final(self).count == old(self).count + 1
    { unimplemented!() }

    fn visit_mutation(&mut self, m: &Mutation) -> (r: Result<u64, ()>)
        ensures m.dest is Some ==> final(self).count == old(self).count + 1,
    {
        Ok(m.dest
                    .as_ref()
                    .map_or_else(|| leaf(()), |dest| self.visit_assignment_lhs(dest))?)
    }
}

} // verus!
fn main() {}
