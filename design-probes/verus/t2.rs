#![feature(allocator_api)]
use vstd::prelude::*;
#[derive(Clone, Debug, PartialEq)]
pub struct Array { x: u8 }

use std::rc::Rc;
use std::hint::unreachable_unchecked;
verus! {

#[verifier::external_type_specification]
#[verifier::external_body]
pub struct ExArray(Array);

pub uninterp spec fn spec_iter_items<T, I>(i: I) -> Seq<T>;
pub assume_specification<T, A: std::alloc::Allocator, I: std::iter::IntoIterator<Item = T>>[<std::vec::Vec<T, A> as std::iter::Extend<T>>::extend](v: &mut Vec<T, A>, i: I)
    ensures final(v)@ == old(v)@ + spec_iter_items::<T, I>(i);
pub broadcast axiom fn vec_iter_items<T>(v: Vec<T>)
    ensures #[trigger] spec_iter_items::<T, Vec<T>>(v) == v@;

#[derive(Clone, Debug, PartialEq)]
pub enum Val {
    Undefined,
    Null,
    Boolean(bool),
    Number(f64),
    String(Rc<String>),
    Array(Rc<Array>),
}

impl Val {
    pub fn is_truthy(&self) -> (r: bool)
        ensures r == match self {
            Val::Undefined => false,
            Val::Null => false,
            Val::Boolean(b) => *b,
            Val::Number(n) => !(n == 0.0f64),
            _ => true }
    {
        match self {
            Val::Undefined => false,
            Val::Null => false,
            Val::Boolean(b) => *b,
            Val::Number(n) => *n != 0.0,
            Val::String(_) => true,
            Val::Array(_) => true,
        }
    }
}

#[derive(Clone, Debug, PartialEq, Eq)]
pub enum ListBuilder<T> {
    Empty,
    One(T),
    List(Vec<T>),
}

impl<T> ListBuilder<T> {
    pub open spec fn view(self) -> Seq<T> {
        match self {
            ListBuilder::Empty => Seq::empty(),
            ListBuilder::One(d) => seq![d],
            ListBuilder::List(ds) => ds@,
        }
    }
    fn is_empty(&self) -> (r: bool) ensures r == (self is Empty) { matches!(self, ListBuilder::Empty) }

    fn build(self) -> (r: Vec<T>) ensures r@ == self.view() {
        match self {
            ListBuilder::Empty => Vec::new(),
            ListBuilder::One(d) => vec![d],
            ListBuilder::List(ds) => ds,
        }
    }
    fn combine(self, other: Self) -> (r: Self)
        ensures r.view() == self.view() + other.view()
    {
        broadcast use vec_iter_items;
        if other.is_empty() {
            return self;
        }
        if self.is_empty() {
            return other;
        }
        let mut ds = match self {
            ListBuilder::Empty => unsafe { unreachable_unchecked() },
            ListBuilder::One(d) => vec![d],
            ListBuilder::List(ds) => ds,
        };
        match other {
            ListBuilder::Empty => unsafe { unreachable_unchecked() },
            ListBuilder::One(od) => ds.push(od),
            ListBuilder::List(ods) => ds.extend(ods),
        };
        ListBuilder::List(ds)
    }
}

} // verus!
fn main() {}
