use vstd::prelude::*;
use std::rc::Rc;
verus! {

pub enum Val { Undefined, Null, Boolean(bool), Number(f64), String(Rc<String>) }
pub enum ValError {
    InvalidOperationForType(&'static str, Val),
    ParsingStringAsNumberFailed(String),
    InvalidStringToIntegerRadix(Val),
    ConvertingNumberToCharacterFailed(f64),
    UnexpectedParameterToNumberToCharacterCast(Val),
}

pub uninterp spec fn spec_trunc_is_int(f: f64) -> bool;
pub uninterp spec fn spec_to_i64(f: f64) -> i64;
pub uninterp spec fn spec_from_radix(s: Seq<char>, r: u32) -> Option<i64>;

#[verifier::external_body]
fn val_clone(v: &Val) -> (r: Val) ensures r == *v { unimplemented!() }
#[verifier::external_body]
fn val_from_char(c: char) -> (r: Val) ensures r is String { unimplemented!() }
#[verifier::external_body]
fn i64_to_f64(i: i64) -> (r: f64) { i as f64 }
#[verifier::external_body]
fn i64_from_str_radix(s: &Rc<String>, radix: u32) -> (r: Result<i64, ()>)
    requires 2 <= radix <= 36,
    ensures r is Ok <==> spec_from_radix(s@, radix) is Some
{ unimplemented!() }
#[verifier::external_body]
fn try_to_integer(f: f64) -> (r: Option<i64>)
    ensures r is Some <==> spec_trunc_is_int(f), r is Some ==> r->0 == spec_to_i64(f)
{ unimplemented!() }
#[verifier::external_body]
fn i64_try_into_u32(i: i64) -> (r: Result<u32, ()>)
    ensures r is Ok <==> 0 <= i <= u32::MAX, r is Ok ==> r->Ok_0 == i
{ unimplemented!() }

impl Val {
    pub fn cast(&mut self, param: Option<Val>) -> (r: Result<(), ValError>)
    {
        match self {
            Val::String(s) => {
                if let Some(param) = param {
                    match param {
                        Val::Number(p) => {
                            let radix = match try_to_integer(p) { Some(i) => match i64_try_into_u32(i) { Ok(r) => r, Err(_e) => return Err(ValError::InvalidStringToIntegerRadix(val_clone(&param))) }, None => return Err(ValError::InvalidStringToIntegerRadix(val_clone(&param))) };
                            let n = match i64_from_str_radix(s, radix) { Ok(n) => n, Err(_e) => return Err(ValError::InvalidStringToIntegerRadix(val_clone(&param))) };
                            *self = Val::Number(i64_to_f64(n));
                            Ok(())
                        }
                        _ => Err(ValError::InvalidStringToIntegerRadix(val_clone(&param))),
                    }
                } else {
                    Ok(())
                }
            }
            _ => Err(ValError::InvalidOperationForType("cast", val_clone(self))),
        }
    }
}

} // verus!
fn main() {}
