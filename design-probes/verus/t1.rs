use vstd::prelude::*;
verus! {

#[derive(Clone, Copy, Debug, Eq, PartialEq)]
pub struct ErrorMessage(&'static str);

#[derive(Clone, Copy, Debug, PartialEq)]
pub enum TokenType<'a> {
    Word,
    StringLiteral(&'a str),
    Number(f64),
    Plus, With, Minus, Multiply, Divide, And, Or, Nor, Greater, Bigger, GreaterEq, Big, Less, Smaller, LessEq, Small, Isnt, Not,
    Comment(&'a str),
    Error(ErrorMessage),
}

#[derive(Copy, Clone, Debug, PartialEq, Eq)]
pub enum BinaryOperator {
    Plus, Minus, Multiply, Divide, And, Or, Nor, Eq, NotEq, Greater, GreaterEq, Less, LessEq,
}

pub open spec fn spec_binop(token: TokenType) -> Option<BinaryOperator> {
    match token {
        TokenType::Plus => Some(BinaryOperator::Plus),
        TokenType::With => Some(BinaryOperator::Plus),
        TokenType::Minus => Some(BinaryOperator::Minus),
        TokenType::Multiply => Some(BinaryOperator::Multiply),
        TokenType::Divide => Some(BinaryOperator::Divide),
        TokenType::And => Some(BinaryOperator::And),
        TokenType::Or => Some(BinaryOperator::Or),
        TokenType::Nor => Some(BinaryOperator::Nor),
        TokenType::Greater => Some(BinaryOperator::Greater),
        TokenType::Bigger => Some(BinaryOperator::Greater),
        TokenType::GreaterEq => Some(BinaryOperator::GreaterEq),
        TokenType::Big => Some(BinaryOperator::GreaterEq),
        TokenType::Less => Some(BinaryOperator::Less),
        TokenType::Smaller => Some(BinaryOperator::Less),
        TokenType::LessEq => Some(BinaryOperator::LessEq),
        TokenType::Small => Some(BinaryOperator::LessEq),
        TokenType::Isnt => Some(BinaryOperator::NotEq),
        _ => None,
    }
}

fn get_binary_operator(token: TokenType) -> (r: Option<BinaryOperator>)
    ensures r == spec_binop(token)
{
    match token {
        TokenType::Plus | TokenType::With => Some(BinaryOperator::Plus),
        TokenType::Minus => Some(BinaryOperator::Minus),
        TokenType::Multiply => Some(BinaryOperator::Multiply),
        TokenType::Divide => Some(BinaryOperator::Divide),
        TokenType::And => Some(BinaryOperator::And),
        TokenType::Or => Some(BinaryOperator::Or),
        TokenType::Nor => Some(BinaryOperator::Nor),
        TokenType::Greater | TokenType::Bigger => Some(BinaryOperator::Greater),
        TokenType::GreaterEq | TokenType::Big => Some(BinaryOperator::GreaterEq),
        TokenType::Less | TokenType::Smaller => Some(BinaryOperator::Less),
        TokenType::LessEq | TokenType::Small => Some(BinaryOperator::LessEq),
        TokenType::Isnt => Some(BinaryOperator::NotEq),

        _ => None,
    }
}

fn is_literal_word(token: TokenType) -> (r: bool)
    ensures r == (token is Number || token is StringLiteral)
{
    matches!(
        token,
        TokenType::Number(_)
            | TokenType::StringLiteral(_)
    )
}

} // verus!
fn main() {}
