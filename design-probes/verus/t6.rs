#![feature(allocator_api)]
#![feature(clone_to_uninit)]
#![feature(sized_hierarchy)]
use vstd::prelude::*;
use std::collections::VecDeque;
use std::rc::Rc;
verus! {

pub assume_specification<T, A: std::alloc::Allocator, F: FnMut() -> T>[VecDeque::<T, A>::resize_with](v: &mut VecDeque<T, A>, n: usize, f: F)
    ensures final(v)@.len() == n,
        forall|k: int| 0 <= k < old(v)@.len() && k < n ==> final(v)@[k] == old(v)@[k];

pub assume_specification<T, A: std::alloc::Allocator>[VecDeque::<T, A>::get_mut](v: &mut VecDeque<T, A>, i: usize) -> (r: Option<&mut T>)
    ensures
        i >= old(v)@.len() ==> r is None && final(v)@ == old(v)@,
        i < old(v)@.len() ==> r is Some && *r->0 == old(v)@[i as int] && final(v)@ == old(v)@.update(i as int, *final(r->0));

#[derive(Clone)]
pub enum Val { Undefined, Number(u64), Array(Rc<Array>) }

#[derive(Clone)]
pub struct Array { pub arr: VecDeque<Val> }

impl Array {
    fn index_arr_or_insert(&mut self, i: usize) -> (r: &mut Val)
        requires i < usize::MAX
        ensures
            final(self).arr@.len() == (if i >= old(self).arr@.len() { i + 1 } else { old(self).arr@.len() as int }),
            final(self).arr@[i as int] == *final(r),
            forall|k: int| 0 <= k < old(self).arr@.len() && k != i ==> final(self).arr@[k] == old(self).arr@[k],
    {
        if i >= self.arr.len() {
            self.arr.resize_with(i + 1, || Val::Undefined);
        }
        self.arr.get_mut(i).unwrap()
    }
    fn pop(&mut self) -> (r: Val)
        ensures old(self).arr@.len() > 0 ==> final(self).arr@ == old(self).arr@.skip(1)
    {
        self.arr.pop_front().unwrap_or(Val::Undefined)
    }
}

#[verifier::external_body]
fn rc_make_mut(rc: &mut Rc<Array>) -> (r: &mut Array)
    ensures *r == **old(rc), **final(rc) == *final(r)
{ Rc::make_mut(rc) }

impl Val {
    pub fn index_or_insert(&mut self, i: usize) -> (r: Result<&mut Val, u8>)
        requires i < usize::MAX
    {
        match self {
            Val::Array(a) => Ok(rc_make_mut(a).index_arr_or_insert(i)),
            _ => Err(1),
        }
    }
}

} // verus!
fn main() {}
