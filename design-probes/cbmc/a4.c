#include <assert.h>
struct SF { double f; }; struct SP { int *p; };
union U { struct SP S; struct SF F; };
struct E { unsigned long tag; union U cases; };
int main(){ int x=9; struct E e; e.cases.S = (struct SP){ &x }; e.tag=1; struct E a=e; struct E *q=&a; assert(*(q->cases.S.p)==9); return 0; }
