/// f64 method calls (`n.fract()`, `f.ceil()`, ...) and casts are rewritten to these shims by the unit-wide rule
/// `f64method`; the receiver may be an `f64` or a `&f64` binding
pub trait AsF64: Sized { spec fn fv(self) -> f64; fn get(self) -> (r: f64) ensures r == self.fv(); }
impl AsF64 for f64 { open spec fn fv(self) -> f64 { self } fn get(self) -> (r: f64) { self } }
impl AsF64 for &f64 { open spec fn fv(self) -> f64 { *self } fn get(self) -> (r: f64) { *self } }
pub uninterp spec fn sp_fract(a: f64) -> f64;
pub uninterp spec fn sp_abs(a: f64) -> f64;
pub uninterp spec fn sp_fbool(name: int, a: f64) -> bool;       // is_nan / is_finite / is_infinite / is_sign_negative ...
#[verifier::external_body] pub fn m_fract<T: AsF64>(a: T) -> (r: f64) ensures r == sp_fract(a.fv()) { unimplemented!() }
#[verifier::external_body] pub fn m_abs<T: AsF64>(a: T) -> (r: f64) ensures r == sp_abs(a.fv()) { unimplemented!() }
#[verifier::external_body] pub fn m_trunc<T: AsF64>(a: T) -> (r: f64) ensures r == sp_trunc(a.fv()) { unimplemented!() }
#[verifier::external_body] pub fn m_ceil<T: AsF64>(a: T) -> (r: f64) ensures r == sp_ceil(a.fv()) { unimplemented!() }
#[verifier::external_body] pub fn m_floor<T: AsF64>(a: T) -> (r: f64) ensures r == sp_floor(a.fv()) { unimplemented!() }
#[verifier::external_body] pub fn m_round<T: AsF64>(a: T) -> (r: f64) ensures r == sp_round(a.fv()) { unimplemented!() }
#[verifier::external_body] pub fn m_is_nan<T: AsF64>(a: T) -> (r: bool) ensures r == sp_fbool(0, a.fv()) { unimplemented!() }
#[verifier::external_body] pub fn m_is_finite<T: AsF64>(a: T) -> (r: bool) ensures r == sp_fbool(1, a.fv()) { unimplemented!() }
#[verifier::external_body] pub fn m_is_infinite<T: AsF64>(a: T) -> (r: bool) ensures r == sp_fbool(2, a.fv()) { unimplemented!() }
#[verifier::external_body] pub fn m_is_sign_negative<T: AsF64>(a: T) -> (r: bool) ensures r == sp_fbool(3, a.fv()) { unimplemented!() }
#[verifier::external_body] pub fn m_is_sign_positive<T: AsF64>(a: T) -> (r: bool) ensures r == sp_fbool(4, a.fv()) { unimplemented!() }
#[verifier::external_body] pub fn m_to_string<T: AsF64>(a: T) -> (r: String) ensures r@ == sp_render(a.fv()) { unimplemented!() }
#[verifier::external_body] pub fn m_as_usize<T: AsF64>(a: T) -> (r: usize) ensures r == sp_f64_usize(a.fv()) { unimplemented!() }
#[verifier::external_body] pub fn m_as_i64<T: AsF64>(a: T) -> (r: i64) ensures r == sp_f64_i64(a.fv()) { unimplemented!() }
#[verifier::external_body] pub fn m_total_cmp<T: AsF64, U: AsF64>(a: T, b: U) -> (r: Ordering) { unimplemented!() }   // no relation to partial_cmp promised
#[verifier::external_body] pub fn m_cmp<T: AsF64, U: AsF64>(op: u8, a: T, b: U) -> (r: bool)
    ensures r == (match op {
        0u8 => sp_feq(a.fv(), b.fv()), 1u8 => !sp_feq(a.fv(), b.fv()),
        2u8 => sp_fcmp(a.fv(), b.fv()) == Some(Ordering::Greater) || sp_fcmp(a.fv(), b.fv()) == Some(Ordering::Equal),
        3u8 => sp_fcmp(a.fv(), b.fv()) == Some(Ordering::Less) || sp_fcmp(a.fv(), b.fv()) == Some(Ordering::Equal),
        4u8 => sp_fcmp(a.fv(), b.fv()) == Some(Ordering::Greater),
        _ => sp_fcmp(a.fv(), b.fv()) == Some(Ordering::Less) })
{ unimplemented!() }
#[verifier::external_body] pub fn m_partial_cmp<T: AsF64, U: AsF64>(a: T, b: U) -> (r: Option<Ordering>) ensures r == sp_fcmp(a.fv(), b.fv()) { unimplemented!() }

