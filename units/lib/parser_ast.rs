// ---- abstract syntax.  Statement-level nodes are the real types of src/frontend/ast.rs; what the sub-parsers that are
// not under contract produce (expressions, names, poetic literals, function definitions) is opaque.
#[verifier::external_body] pub struct PrimaryExpression { _p: u8 }
#[verifier::external_body] pub struct AssignmentLHS { _p: u8 }
#[verifier::external_body] pub struct AssignmentRHS { _p: u8 }
#[verifier::external_body] pub struct ArrayPopExpr { _p: u8 }
#[verifier::external_body] pub struct Identifier { _p: u8 }
#[verifier::external_body] pub struct VariableName { _p: u8 }
#[verifier::external_body] pub struct PoeticAssignment { _p: u8 }
#[verifier::external_body] pub struct Function { _p: u8 }
#[verifier::external_body] pub struct FunctionCall { _p: u8 }
//@item src/frontend/ast.rs | enum | LiteralExpression
//@end
//@item src/frontend/ast.rs | struct | WithRange
//@end
//@item src/frontend/ast.rs | enum | UnaryOperator
//@derive Clone, Copy
//@end
//@item src/frontend/ast.rs | enum | BinaryOperator
//@derive Clone, Copy
//@end
//@item src/frontend/ast.rs | enum | MutationOperator
//@derive Clone, Copy
//@end
//@item src/frontend/ast.rs | enum | RoundingDirection
//@derive Clone, Copy
//@end
//@item src/frontend/ast.rs | enum | PoeticNumberLiteralElem
//@end
//@item src/frontend/ast.rs | struct | PoeticNumberLiteral
//@end
//@item src/frontend/ast.rs | enum | PoeticNumberAssignmentRHS
//@end
//@item src/frontend/ast.rs | struct | UnaryExpression
//@end
//@item src/frontend/ast.rs | struct | BinaryExpression
//@end
//@item src/frontend/ast.rs | enum | Expression
//@end
//@item src/frontend/ast.rs | struct | ExpressionList
//@end
//@item src/frontend/ast.rs | struct | Assignment
//@end
//@item src/frontend/ast.rs | struct | If
//@end
//@item src/frontend/ast.rs | struct | While
//@end
//@item src/frontend/ast.rs | struct | Until
//@end
//@item src/frontend/ast.rs | struct | Inc
//@end
//@item src/frontend/ast.rs | struct | Dec
//@end
//@item src/frontend/ast.rs | enum | InputDest
//@end
//@item src/frontend/ast.rs | struct | Input
//@end
//@item src/frontend/ast.rs | struct | Output
//@end
//@item src/frontend/ast.rs | struct | Mutation
//@end
//@item src/frontend/ast.rs | struct | Rounding
//@end
//@item src/frontend/ast.rs | enum | ArrayPushRHS
//@end
//@item src/frontend/ast.rs | struct | ArrayPush
//@end
//@item src/frontend/ast.rs | struct | ArrayPop
//@end
//@item src/frontend/ast.rs | struct | Return
//@end
//@item src/frontend/ast.rs | struct | Continue
//@end
//@item src/frontend/ast.rs | struct | Break
//@end
//@item src/frontend/ast.rs | enum | Statement
//@end
//@item src/frontend/ast.rs | enum | Block
//@end
//@item src/frontend/ast.rs | struct | Program
//@end
/// which abstract sub-parser a history entry records, and what it returned
/// the levels of the expression grammar, i.e. the parser functions that the binary-expression helpers receive as
/// their `next` argument (defunctionalised: Level::X stands for Parser::parse_X)
#[derive(Clone, Copy)]
pub enum Level { Expression, Comparison, Term, Factor, Unary }
pub enum K { Stmt, Expr, ExprList, Primary, Lhs, Blk, Ident, VarName, PoeticNum, WordStmt, Level(Level), ListOf(Level), PoeticElems }
pub enum Out {
    Stmt(Option<Statement>), Expr(Expression), ExprList(ExpressionList), Primary(PrimaryExpression), Lhs(AssignmentLHS), Blk(Block),
    Ident(Option<WithRange<Identifier>>), VarName(Option<WithRange<VariableName>>), PoeticNum(PoeticNumberLiteral), WordStmt(Statement),
    PoeticElems(Vec<PoeticNumberLiteralElem>),
}
