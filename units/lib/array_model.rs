// ===================================================================================================
// Array model: `HashMap<DictKey, Val>` is the opaque `Dict` with view Map<DKey, Val>; DictKey and
// DictKeyRef of the same value address the same slot (assumed: the Borrow<dyn Key> trick of val.rs).
// ===================================================================================================
pub enum DKey { Undefined, Null, Boolean(bool), String(Seq<char>) }
impl DictKey {
    pub open spec fn dk(self) -> DKey {
        match self { DictKey::Undefined => DKey::Undefined, DictKey::Null => DKey::Null, DictKey::Boolean(b) => DKey::Boolean(b), DictKey::String(s) => DKey::String(s@) }
    }
}
impl<'a> DictKeyRef<'a> {
    pub open spec fn dk(self) -> DKey {
        match self { DictKeyRef::Undefined => DKey::Undefined, DictKeyRef::Null => DKey::Null, DictKeyRef::Boolean(b) => DKey::Boolean(b), DictKeyRef::String(s) => DKey::String(s@) }
    }
}
/// dictionary key of a scalar (meaningless for numbers / arrays, which never reach the dictionary)
pub open spec fn val_dkey(v: Val) -> DKey {
    match v { Val::Null => DKey::Null, Val::Boolean(b) => DKey::Boolean(b), Val::String(s) => DKey::String(s@), _ => DKey::Undefined }
}
pub open spec fn seq_get(s: Seq<Val>, i: usize) -> Val { if i < s.len() { s[i as int] } else { Val::Undefined } }
pub open spec fn dict_get(m: Map<DKey, Val>, k: DKey) -> Val { if m.contains_key(k) { m[k] } else { Val::Undefined } }

impl Dict {
    pub uninterp spec fn view(&self) -> Map<DKey, Val>;
    #[verifier::external_body]
    pub fn get(&self, k: &DictKeyRef<'_>) -> (r: Option<&Val>)
        ensures r == (if self@.contains_key(k.dk()) { Some(&self@[k.dk()]) } else { None })
    { unimplemented!() }
    #[verifier::external_body]
    pub fn is_empty(&self) -> (r: bool) ensures r == (self@.dom() =~= Set::<DKey>::empty()) { unimplemented!() }
}

pub assume_specification<T, A: std::alloc::Allocator, F: FnMut() -> T>[VecDeque::<T, A>::resize_with](v: &mut VecDeque<T, A>, n: usize, f: F)
    requires forall|x: ()| f.requires(x),
    ensures final(v)@.len() == n,
        forall|k: int| 0 <= k < old(v)@.len() && k < n ==> #[trigger] final(v)@[k] == old(v)@[k],
        forall|k: int| old(v)@.len() <= k < n ==> f.ensures((), #[trigger] final(v)@[k]);
pub assume_specification<T, A: std::alloc::Allocator>[VecDeque::<T, A>::get_mut](v: &mut VecDeque<T, A>, i: usize) -> (r: Option<&mut T>)
    ensures
        i >= old(v)@.len() ==> r is None && final(v)@ == old(v)@,
        i < old(v)@.len() ==> r is Some && *r->0 == old(v)@[i as int] && final(v)@ == old(v)@.update(i as int, *final(r->0));

/// `Rc::make_mut`: a unique reference to a value equal to `**rc`; no other `Rc`/`Val` is in the frame, which is
/// what makes copies independent (DESIGN.md, C06)
#[verifier::external_body]
pub fn rc_make_mut(rc: &mut Rc<Array>) -> (r: &mut Array)
    ensures *r == **old(rc), **final(rc) == *final(r)
{ unimplemented!() }
pub assume_specification<T, A: std::alloc::Allocator>[VecDeque::<T, A>::is_empty](v: &VecDeque<T, A>) -> (r: bool)
    ensures r == (v@.len() == 0);
pub assume_specification<T, A: std::alloc::Allocator>[VecDeque::<T, A>::get](v: &VecDeque<T, A>, i: usize) -> (r: Option<&T>)
    ensures r == (if i < v@.len() { Some(&v@[i as int]) } else { None });

impl Dict {
    /// `self.dict.entry(k).or_default()`
    #[verifier::external_body]
    pub fn entry_or_default(&mut self, k: DictKey) -> (r: &mut Val)
        ensures *r == dict_get(old(self)@, k.dk()), final(self)@ == old(self)@.insert(k.dk(), *final(r))
    { unimplemented!() }
}
impl Array {
    /// `Array::new()`
    #[verifier::external_body]
    pub fn new() -> (r: Array) ensures r.arr@ == Seq::<Val>::empty(), r.dict@ == Map::<DKey, Val>::empty() { unimplemented!() }
    /// `Array::push(iter::once(v))`  (Array::push is `self.arr.extend(vals)`: std, abstract)
    #[verifier::external_body]
    pub fn push_one(&mut self, v: Val) ensures final(self).arr@ == old(self).arr@.push(v), final(self).dict@ == old(self).dict@ { unimplemented!() }
}
// ---- C10: the order in which the dictionary part is visited
/// the values of a dictionary in KEY order: a function of the map's content alone
pub uninterp spec fn vals_by_key(m: Map<DKey, Val>) -> Seq<Val>;
/// an `impl Iterator<Item = &Val>`: only the sequence of values it yields matters
#[verifier::external_body] pub struct RefIter<'a> { _p: &'a u8 }
impl<'a> RefIter<'a> { pub uninterp spec fn items(&self) -> Seq<Val>; }
/// `dict.iter().sorted_unstable_by(|a, b| a.0.cmp(b.0)).map(|(_, val)| val)`: keys are unique, so sorting by key (stable or
/// not) yields one order, whatever order the HashMap hands the entries out in
#[verifier::external_body]
pub fn dict_values_in_key_order<'a>(d: &'a Dict) -> (r: RefIter<'a>) ensures r.items() == vals_by_key(d@) { unimplemented!() }
/// `dict.values()`: the values in HashMap iteration order — which depends on the per-process hash seed, so NOTHING is
/// promised about the order (a contract that needs one fails)
#[verifier::external_body]
pub fn dict_values_hash_order<'a>(d: &'a Dict) -> (r: RefIter<'a>) ensures r.items().len() == vals_by_key(d@).len() { unimplemented!() }
/// `deque.iter().chain(rest)`
#[verifier::external_body]
pub fn chain_refs<'a>(v: &'a VecDeque<Val>, rest: RefIter<'a>) -> (r: RefIter<'a>) ensures r.items() == v@ + rest.items() { unimplemented!() }
/// an `impl Iterator<Item = Val>` handed to push: only the sequence of values it yields matters
#[verifier::external_body] pub struct ValIter { _p: u8 }
impl ValIter { pub uninterp spec fn items(&self) -> Seq<Val>; }
/// `VecDeque::extend(iter)`: appends the yielded values at the back, in order
#[verifier::external_body]
pub fn deque_extend(v: &mut VecDeque<Val>, it: ValIter) ensures final(v)@ == old(v)@ + it.items() { unimplemented!() }
/// `s.chars().nth(i)`
#[verifier::external_body]
pub fn str_nth(s: &str, i: usize) -> (r: Option<char>) ensures r == (if i < s@.len() { Some(s@[i as int]) } else { None }) { unimplemented!() }
