// ===================================================================================================
// Shared specification library for the units over src/exec/val.rs.
// Types are EXTRACTED from the repository (//@item); everything else here is specification or a
// std shim (DESIGN.md §3.2 rule 2).  Shims marked external_body are assumptions and are listed in the
// evidence (`trusted_base`) by a mechanical scan of the generated file.
// ===================================================================================================

// `HashMap<DictKey, Val>` is replaced by an opaque `Dict` whose view is a mathematical map: the
// `Borrow<dyn Key>` hashing trick of val.rs is *assumed* to make DictKey / DictKeyRef of the same
// value address the same slot.
#[verifier::external_body]
pub struct Dict { _p: u8 }

//@item src/exec/val.rs | enum | Val
//@end

//@item src/exec/val.rs | struct | Array
//@rw HashMap<DictKey, Val> ==> Dict
//@rw \barr: ==> pub arr:
//@rw \bdict: ==> pub dict:
//@end

//@item src/exec/val.rs | enum | ValError
//@end

//@item src/exec/val.rs | enum | DictKey
//@end

//@item src/exec/val.rs | enum | DictKeyRef
//@derive Clone, Copy
//@end

// ---------------------------------------------------------------------------------------------------
// std::borrow::Cow shim: same shape, same constructors, `as_ref`, `into_owned`.
pub enum Cow<'a, B> { Borrowed(&'a B), Owned(B) }

impl<'a, B> Cow<'a, B> {
    pub open spec fn view(&self) -> B {
        match self { Cow::Borrowed(b) => **b, Cow::Owned(b) => *b }
    }
    pub fn as_ref(&self) -> (r: &B)
        ensures *r == self.view()
    {
        match self { Cow::Borrowed(b) => b, Cow::Owned(b) => b }
    }
}
impl<'a, B> std::ops::Deref for Cow<'a, B> {
    type Target = B;
    fn deref(&self) -> (r: &B) ensures *r == self.view() { match self { Cow::Borrowed(b) => b, Cow::Owned(b) => b } }
}
impl<'a> Cow<'a, Val> {
    pub fn into_owned(self) -> (r: Val)
        ensures r == self.view()
    {
        match self { Cow::Borrowed(b) => b.vclone(), Cow::Owned(b) => b }
    }
}
// `Cow<'_, str>` (unsized payload) gets its own local enum
pub enum CowStr<'a> { Borrowed(&'a str), Owned(String) }
impl<'a> CowStr<'a> {
    pub open spec fn view(&self) -> Seq<char> {
        match self { CowStr::Borrowed(b) => b@, CowStr::Owned(b) => b@ }
    }
}

// ---------------------------------------------------------------------------------------------------
// f64: Verus has no float theory.  Every float operation is an uninterpreted function; the IEEE
// meaning of these operations on the *compiled* code is what the Kani harnesses (kani/val_scalar.rs)
// check bit-precisely for the scalar universe.
pub uninterp spec fn sp_add(a: f64, b: f64) -> f64;
pub uninterp spec fn sp_sub(a: f64, b: f64) -> f64;
pub uninterp spec fn sp_mul(a: f64, b: f64) -> f64;
pub uninterp spec fn sp_div(a: f64, b: f64) -> f64;
pub uninterp spec fn sp_neg(a: f64) -> f64;
pub uninterp spec fn sp_feq(a: f64, b: f64) -> bool;               // IEEE ==
pub uninterp spec fn sp_fcmp(a: f64, b: f64) -> Option<Ordering>;   // IEEE partial_cmp
pub uninterp spec fn sp_ceil(a: f64) -> f64;
pub uninterp spec fn sp_floor(a: f64) -> f64;
pub uninterp spec fn sp_round(a: f64) -> f64;
pub uninterp spec fn sp_trunc(a: f64) -> f64;
pub uninterp spec fn sp_usize_f64(a: int) -> f64;                   // `n as f64`
pub uninterp spec fn sp_f64_usize(a: f64) -> usize;                 // `f as usize` (saturating)
pub uninterp spec fn sp_f64_i64(a: f64) -> i64;                     // `f as i64` (saturating)
pub uninterp spec fn sp_render(a: f64) -> Seq<char>;                // `f64::to_string`
pub uninterp spec fn sp_parse(s: Seq<char>) -> Option<f64>;         // `str::parse::<f64>().ok()`
pub open spec fn zero() -> f64 { 0.0f64 }

#[verifier::external_body] pub fn f64_add(a: f64, b: f64) -> (r: f64) ensures r == sp_add(a, b) { a + b }
#[verifier::external_body] pub fn f64_sub(a: f64, b: f64) -> (r: f64) ensures r == sp_sub(a, b) { a - b }
#[verifier::external_body] pub fn f64_mul(a: f64, b: f64) -> (r: f64) ensures r == sp_mul(a, b) { a * b }
#[verifier::external_body] pub fn f64_div(a: f64, b: f64) -> (r: f64) ensures r == sp_div(a, b) { a / b }
#[verifier::external_body] pub fn f64_neg(a: f64) -> (r: f64) ensures r == sp_neg(a) { -a }
#[verifier::external_body] pub fn f64_eq(a: f64, b: f64) -> (r: bool) ensures r == sp_feq(a, b) { a == b }
#[verifier::external_body] pub fn f64_ne(a: f64, b: f64) -> (r: bool) ensures r == !sp_feq(a, b) { a != b }
#[verifier::external_body] pub fn f64_ge(a: f64, b: f64) -> (r: bool)
    ensures r == (sp_fcmp(a, b) == Some(Ordering::Greater) || sp_fcmp(a, b) == Some(Ordering::Equal)) { a >= b }
#[verifier::external_body] pub fn f64_gt(a: f64, b: f64) -> (r: bool) ensures r == (sp_fcmp(a, b) == Some(Ordering::Greater)) { a > b }
#[verifier::external_body] pub fn f64_lt(a: f64, b: f64) -> (r: bool) ensures r == (sp_fcmp(a, b) == Some(Ordering::Less)) { a < b }
#[verifier::external_body] pub fn f64_le(a: f64, b: f64) -> (r: bool)
    ensures r == (sp_fcmp(a, b) == Some(Ordering::Less) || sp_fcmp(a, b) == Some(Ordering::Equal)) { a <= b }
#[verifier::external_body] pub fn f64_partial_cmp(a: &f64, b: &f64) -> (r: Option<Ordering>) ensures r == sp_fcmp(*a, *b) { a.partial_cmp(b) }
#[verifier::external_body] pub fn f64_ceil(a: f64) -> (r: f64) ensures r == sp_ceil(a) { a.ceil() }
#[verifier::external_body] pub fn f64_floor(a: f64) -> (r: f64) ensures r == sp_floor(a) { a.floor() }
#[verifier::external_body] pub fn f64_round(a: f64) -> (r: f64) ensures r == sp_round(a) { a.round() }
#[verifier::external_body] pub fn f64_trunc(a: f64) -> (r: f64) ensures r == sp_trunc(a) { a.trunc() }
#[verifier::external_body] pub fn f64_to_usize(a: f64) -> (r: usize) ensures r == sp_f64_usize(a) { a as usize }
#[verifier::external_body] pub fn f64_to_i64(a: f64) -> (r: i64) ensures r == sp_f64_i64(a) { a as i64 }
#[verifier::external_body] pub fn render_f64(a: f64) -> (r: String) ensures r@ == sp_render(a) { a.to_string() }
#[verifier::external_body] pub fn parse_f64(s: &str) -> (r: Option<f64>) ensures r == sp_parse(s@) { s.parse::<f64>().ok() }

//@include lib/f64_methods.rs
pub uninterp spec fn sp_i64_render(i: i64) -> Seq<char>;
#[verifier::external_body] pub fn i64_to_string(i: i64) -> (r: String) ensures r@ == sp_i64_render(i) { unimplemented!() }
pub trait ToF64: Sized { spec fn as_int(self) -> int; fn to_f64(self) -> (r: f64) ensures r == sp_usize_f64(self.as_int()); }
impl ToF64 for usize { open spec fn as_int(self) -> int { self as int }
    #[verifier::external_body] fn to_f64(self) -> (r: f64) { self as f64 } }
impl ToF64 for isize { open spec fn as_int(self) -> int { self as int }
    #[verifier::external_body] fn to_f64(self) -> (r: f64) { self as f64 } }
impl ToF64 for i64 { open spec fn as_int(self) -> int { self as int }
    #[verifier::external_body] fn to_f64(self) -> (r: f64) { self as f64 } }
pub fn to_f64<T: ToF64>(x: T) -> (r: f64) ensures r == sp_usize_f64(x.as_int()) { x.to_f64() }

// ---------------------------------------------------------------------------------------------------
// Val: kinds, equality (the derived PartialEq), clone, conversions
pub open spec fn kind(v: Val) -> int {
    match v { Val::Undefined => 0, Val::Null => 1, Val::Boolean(_) => 2, Val::Number(_) => 3, Val::String(_) => 4, Val::Array(_) => 5 }
}
/// stands for `std::mem::discriminant(v)`; only compared for equality
pub fn discriminant(v: &Val) -> (r: u8)
    ensures r as int == kind(*v)
{
    match v { Val::Undefined => 0, Val::Null => 1, Val::Boolean(_) => 2, Val::Number(_) => 3, Val::String(_) => 4, Val::Array(_) => 5 }
}

impl vstd::std_specs::cmp::PartialEqSpecImpl for Val {
    open spec fn obeys_eq_spec() -> bool { true }
    open spec fn eq_spec(&self, other: &Val) -> bool { sval_eq(self.v(), other.v()) }
}
impl PartialEq for Val {
    #[verifier::external_body]
    fn eq(&self, other: &Val) -> (r: bool) { unimplemented!() }
}

pub trait VClone: Sized { fn vclone(&self) -> (r: Self) ensures r == *self; }
impl VClone for Val { #[verifier::external_body] fn vclone(&self) -> (r: Self) { unimplemented!() } }
impl VClone for String { #[verifier::external_body] fn vclone(&self) -> (r: Self) { unimplemented!() } }

// `impl<S: Into<String>> From<S> for Val` and `impl From<Array> for Val`, one monomorphic shim per use
#[verifier::external_body] pub fn val_from_str(s: &str) -> (r: Val) ensures r.v() == SVal::String(s@) { unimplemented!() }
#[verifier::external_body] pub fn val_from_string(s: String) -> (r: Val) ensures r.v() == SVal::String(s@) { unimplemented!() }
#[verifier::external_body] pub fn val_from_char(c: char) -> (r: Val) ensures r.v() == SVal::String(seq![c]) { unimplemented!() }
#[verifier::external_body] pub fn val_from_array(a: Array) -> (r: Val) ensures r.v() == SVal::Array(a) { unimplemented!() }
#[verifier::external_body] pub fn string_from_str(s: &str) -> (r: String) ensures r@ == s@ { unimplemented!() }

// `unreachable!()` / `unreachable_unchecked()` are rewritten to vstd's `unreached()` (requires false):
// reaching one is a failed proof obligation.
pub use vstd::pervasive::unreached;

/// `Rc::ptr_eq`: the same allocation holds one value (nothing is promised when it answers false)
pub assume_specification<T: ?Sized, A: std::alloc::Allocator>[Rc::<T, A>::ptr_eq](a: &Rc<T, A>, b: &Rc<T, A>) -> (r: bool)
    ensures r ==> a == b;
