// ===================================================================================================
// Abstract `Val` operations for units that CALL them (callee abstraction, DESIGN.md §3.2 rule 1).
// Each contract below is the postcondition PROVED for the real function in unit `val_ops`
// (same spec functions from lib/val_tables.rs), so these are linked assumptions, not free ones.
// ===================================================================================================
impl Val {
    #[verifier::external_body]
    pub fn decay(&self) -> (r: Cow<'_, Val>) ensures r.view().v() == decayed(self.v()), (r is Borrowed) == !(*self is Array), r is Borrowed ==> r.view() == *self { unimplemented!() }
    #[verifier::external_body]
    pub fn is_truthy(&self) -> (r: bool) ensures r == truthy(self.v()) { unimplemented!() }
    #[verifier::external_body]
    pub fn equals(&self, other: &Val) -> (r: bool) ensures r == spec_equals(self.v(), other.v()) { unimplemented!() }
    #[verifier::external_body]
    pub fn compare(&self, other: &Val) -> (r: Result<Option<Ordering>, ValError>) ensures compare_matches(r, *self, *other) { unimplemented!() }
    #[verifier::external_body]
    pub fn plus(&self, other: &Val) -> (r: Val) ensures r.v() == spec_plus(self.v(), other.v()) { unimplemented!() }
    #[verifier::external_body]
    pub fn subtract(&self, other: &Val) -> (r: Val) ensures r.v() == spec_arith('-', self.v(), other.v()) { unimplemented!() }
    #[verifier::external_body]
    pub fn multiply(&self, other: &Val) -> (r: Val) ensures r.v() == spec_multiply(self.v(), other.v()) { unimplemented!() }
    #[verifier::external_body]
    pub fn divide(&self, other: &Val) -> (r: Val) ensures r.v() == spec_arith('/', self.v(), other.v()) { unimplemented!() }
    #[verifier::external_body]
    pub fn to_string_for_output(&self) -> (r: CowStr<'_>) ensures r.view() == spec_output(self.v()) { unimplemented!() }
    #[verifier::external_body]
    pub fn negate(&self) -> (r: Result<Val, ValError>) ensures spec_negate(r, *self) { unimplemented!() }
}

// exec/mod.rs: `#[derive(From)] enum RuntimeError`.  The other error types are opaque here.
#[verifier::external_body] pub struct EnvironmentError { _p: u8 }
#[verifier::external_body] pub struct WriteValError { _p: u8 }
#[verifier::external_body] pub struct ExecError { _p: u8 }
#[verifier::external_body] pub struct ProduceValError { _p: u8 }
//@item src/exec/mod.rs | enum | RuntimeError
//@end

/// `e?` on a `Result<_, ValError>` inside a function returning `RuntimeError` converts through
/// derive_more's `From<ValError> for RuntimeError` (= the `ValError` constructor).  Verus cannot attach a
/// spec to that conversion, so such a `?` is rewritten to `lift_val(e)?` (stated rewrite).
pub fn lift_val<T>(r: Result<T, ValError>) -> (o: Result<T, RuntimeError>)
    ensures o == (match r { Ok(x) => Ok::<T, RuntimeError>(x), Err(e) => Err::<T, RuntimeError>(RuntimeError::ValError(e)) })
{
    match r { Ok(x) => Ok(x), Err(e) => Err(RuntimeError::ValError(e)) }
}

/// exec `==` on `Ordering` has no Verus spec; `o == Ordering::X` is rewritten to `ord_eq(o, Ordering::X)`
pub fn ord_eq(a: Ordering, b: Ordering) -> (r: bool)
    ensures r == (a == b)
{
    match (a, b) {
        (Ordering::Less, Ordering::Less) => true,
        (Ordering::Equal, Ordering::Equal) => true,
        (Ordering::Greater, Ordering::Greater) => true,
        _ => false,
    }
}

/// a deferred operand (`impl FnMut(&mut This) -> Result<Val, RuntimeError>`): calling it yields a fixed
/// result and bumps a ghost call counter, so "evaluated exactly once / not at all" is a postcondition
pub struct Thunk { pub calls: Ghost<nat>, pub val: Ghost<Result<Val, RuntimeError>> }
impl Thunk {
    #[verifier::external_body]
    pub fn call(&mut self) -> (r: Result<Val, RuntimeError>)
        ensures r == old(self).val@, final(self).calls@ == old(self).calls@ + 1, final(self).val@ == old(self).val@
    { unimplemented!() }
}

impl<'a> CowStr<'a> {
    /// `&*cow` (Deref<Target = str>)
    #[verifier::external_body]
    pub fn as_str(&self) -> (r: &str) ensures r@ == self.view() { unimplemented!() }
}
