// ===================================================================================================
// Ghost model for the control-flow units: AST node types (extracted; children we never look into are
// opaque), an `ExecStmt` whose callees are abstract and log to a ghost trace, and the trace languages
// that state C04.
// ===================================================================================================
#[verifier::external_body] pub struct Expression { _p: u8 }
#[verifier::external_body] pub struct Statement { _p: u8 }
#[verifier::external_body] pub struct Env { _p: u8 }
#[verifier::external_body] pub struct AssignmentLHS { _p: u8 }
#[verifier::external_body] pub struct FunctionCall { _p: u8 }
#[verifier::external_body] pub struct VariableName { _p: u8 }
#[verifier::external_body] pub struct FunctionData { _p: u8 }
pub struct WithRange<T>(pub T, pub SourceRange);
//@item src/frontend/source_range.rs | struct | SourceLocation
//@end
//@item src/frontend/source_range.rs | struct | SourceRange
//@end
//@item src/frontend/ast.rs | enum | Block
//@end
//@item src/frontend/ast.rs | struct | Program
//@end
//@item src/frontend/ast.rs | struct | If
//@end
//@item src/frontend/ast.rs | struct | While
//@end
//@item src/frontend/ast.rs | struct | Until
//@end
//@item src/frontend/ast.rs | struct | Return
//@end
//@item src/frontend/ast.rs | struct | Continue
//@end
//@item src/frontend/ast.rs | struct | Break
//@end

//@item src/exec/exec_stmt.rs | enum | ControlFlowState
//@end

pub enum CfKind { Normal, Breaking, Continuing, Returning }
impl ControlFlowState {
    pub open spec fn kind(self) -> CfKind {
        match self {
            ControlFlowState::Normal => CfKind::Normal,
            ControlFlowState::Breaking => CfKind::Breaking,
            ControlFlowState::Continuing => CfKind::Continuing,
            ControlFlowState::Returning => CfKind::Returning,
        }
    }
}

pub enum Event {
    Eval(Expression, Val),            // expression evaluated, value
    EvalErr(Expression, RuntimeError),
    Push,                             // scope pushed
    Pop,                              // scope popped
    Stmt(Statement, CfKind),          // statement executed, control-flow state it left
    StmtErr(Statement, RuntimeError),
    Block(Block, CfKind),             // block executed (summary event), state it left
    BlockErr(Block, RuntimeError),
    Out(Seq<char>),                   // one line written to the output stream
    OutErr(Seq<char>, EnvironmentError),
    In(Seq<char>),                    // one line consumed from the input stream
    InErr(EnvironmentError),
    Assign(AssignmentLHS, Val),       // value written through the place `lhs`
    AssignErr(AssignmentLHS, RuntimeError),
    Call(FunctionCall, Val),          // function called as a statement / expression, value returned
    CallErr(FunctionCall, RuntimeError),
    DefFunc(VariableName, Arc<FunctionData>),
    DefFuncErr(VariableName, EnvironmentError),
}

/// `ExecStmt<'a, I, O>`: `env: &RefCell<Environment<I, O>>` is an opaque `Env`; a ghost trace is added
pub struct ExecStmt {
    pub env: Env,
    pub control_flow_state: ControlFlowState,
    pub return_val: Option<Val>,
    pub trace: Ghost<Seq<Event>>,
}

impl ExecStmt {
    /// `self.producer().visit_expression(e)?.0`
    #[verifier::external_body]
    pub fn eval(&mut self, e: &Expression) -> (r: Result<Val, RuntimeError>)
        ensures
            final(self).control_flow_state == old(self).control_flow_state,
            final(self).return_val == old(self).return_val,
            match r {
                Ok(v) => final(self).trace@ == old(self).trace@.push(Event::Eval(*e, v)),
                Err(x) => final(self).trace@ == old(self).trace@.push(Event::EvalErr(*e, x)),
            },
    { unimplemented!() }
    #[verifier::external_body]
    pub fn env_push_scope(&mut self)
        ensures final(self).control_flow_state == old(self).control_flow_state, final(self).return_val == old(self).return_val,
            final(self).trace@ == old(self).trace@.push(Event::Push),
    { unimplemented!() }
    #[verifier::external_body]
    pub fn env_pop_scope(&mut self)
        ensures final(self).control_flow_state == old(self).control_flow_state, final(self).return_val == old(self).return_val,
            final(self).trace@ == old(self).trace@.push(Event::Pop),
    { unimplemented!() }
    /// any statement: runs from Normal, leaves any state, logs itself
    #[verifier::external_body]
    pub fn visit_statement(&mut self, s: &Statement) -> (r: Result<(), RuntimeError>)
        requires old(self).control_flow_state is Normal,
        ensures
            match r {
                Ok(()) => final(self).trace@ == old(self).trace@.push(Event::Stmt(*s, final(self).control_flow_state.kind())),
                Err(x) => final(self).trace@ == old(self).trace@.push(Event::StmtErr(*s, x)),
            },
    { unimplemented!() }
    /// a child block, as seen by if / loops (summary event; the real `visit_block` is verified as
    /// `visit_block_real` against `block_run`, which refines this)
    #[verifier::external_body]
    pub fn visit_block(&mut self, b: &Block) -> (r: Result<(), RuntimeError>)
        requires old(self).control_flow_state is Normal,
        ensures
            match r {
                Ok(()) => final(self).trace@ == old(self).trace@.push(Event::Block(*b, final(self).control_flow_state.kind())),
                Err(x) => final(self).trace@ == old(self).trace@.push(Event::BlockErr(*b, x)),
            },
    { unimplemented!() }
}

impl ExecStmt {
    /// `self.env.borrow_mut().output(text)` — contract of Environment::output (proved in unit exec_io) as one event
    #[verifier::external_body]
    pub fn env_output(&mut self, text: &str) -> (r: Result<(), EnvironmentError>)
        ensures final(self).control_flow_state == old(self).control_flow_state, final(self).return_val == old(self).return_val,
            match r {
                Ok(()) => final(self).trace@ == old(self).trace@.push(Event::Out(text@)),
                Err(x) => final(self).trace@ == old(self).trace@.push(Event::OutErr(text@, x)),
            },
    { unimplemented!() }
    #[verifier::external_body]
    pub fn env_input(&mut self) -> (r: Result<String, EnvironmentError>)
        ensures final(self).control_flow_state == old(self).control_flow_state, final(self).return_val == old(self).return_val,
            match r {
                Ok(s) => final(self).trace@ == old(self).trace@.push(Event::In(s@)),
                Err(x) => final(self).trace@ == old(self).trace@.push(Event::InErr(x)),
            },
    { unimplemented!() }
    /// `self.writer(val).visit_assignment_lhs(dest).unwrap().0`  (WriteVal never returns Err(()): every method is
    /// `wrap(..)` or a default leaf — assumed, listed)
    #[verifier::external_body]
    pub fn assign(&mut self, dest: &AssignmentLHS, val: Val) -> (r: Result<(), RuntimeError>)
        ensures final(self).control_flow_state == old(self).control_flow_state, final(self).return_val == old(self).return_val,
            match r {
                Ok(()) => final(self).trace@ == old(self).trace@.push(Event::Assign(*dest, val)),
                Err(x) => final(self).trace@ == old(self).trace@.push(Event::AssignErr(*dest, x)),
            },
    { unimplemented!() }
    /// `self.producer().visit_function_call(f)`
    #[verifier::external_body]
    pub fn call(&mut self, f: &FunctionCall) -> (r: Result<ProduceValOutput, RuntimeError>)
        ensures final(self).control_flow_state == old(self).control_flow_state, final(self).return_val == old(self).return_val,
            match r {
                Ok(v) => final(self).trace@ == old(self).trace@.push(Event::Call(*f, v.0)),
                Err(x) => final(self).trace@ == old(self).trace@.push(Event::CallErr(*f, x)),
            },
    { unimplemented!() }
    /// `self.env.borrow_mut().create_func(name, data)`
    #[verifier::external_body]
    pub fn env_create_func(&mut self, name: &VariableName, data: Arc<FunctionData>) -> (r: Result<(), EnvironmentError>)
        ensures final(self).control_flow_state == old(self).control_flow_state, final(self).return_val == old(self).return_val,
            match r {
                Ok(()) => final(self).trace@ == old(self).trace@.push(Event::DefFunc(*name, data)),
                Err(x) => final(self).trace@ == old(self).trace@.push(Event::DefFuncErr(*name, x)),
            },
    { unimplemented!() }
}
pub struct ProduceValOutput(pub Val);
#[verifier::external_body] pub fn arc_clone(a: &Arc<FunctionData>) -> (r: Arc<FunctionData>) ensures r == *a { unimplemented!() }

/// derive_more::From on RuntimeError for EnvironmentError (`?` / `Into::into` conversions)
pub fn lift_env<T>(r: Result<T, EnvironmentError>) -> (o: Result<T, RuntimeError>)
    ensures o == (match r { Ok(x) => Ok::<T, RuntimeError>(x), Err(e) => Err::<T, RuntimeError>(RuntimeError::EnvironmentError(e)) })
{
    match r { Ok(x) => Ok(x), Err(e) => Err(RuntimeError::EnvironmentError(e)) }
}

// ---------------------------------------------------------------------------------------------------
// C04 trace languages
pub open spec fn extends(old: Seq<Event>, new: Seq<Event>) -> bool {
    new.len() >= old.len() && forall|i: int| 0 <= i < old.len() ==> #[trigger] new[i] == old[i]
}
pub open spec fn suffix(old: Seq<Event>, new: Seq<Event>) -> Seq<Event> { new.subrange(old.len() as int, new.len() as int) }

/// the walk ended with an error: the last event is the failing callee with that very error, nothing ran after it
pub open spec fn error_last(old: Seq<Event>, new: Seq<Event>, e: RuntimeError) -> bool {
    extends(old, new) && new.len() > old.len() && match new.last() {
        Event::EvalErr(_, x) => x == e,
        Event::StmtErr(_, x) => x == e,
        Event::BlockErr(_, x) => x == e,
        _ => false,
    }
}

/// block: statements 0..n ran in index order; all but the last left Normal; it stopped at n < len only
/// because statement n-1 left a non-Normal state (then that state is the block's) or failed
pub open spec fn block_run(b: Block, old: Seq<Event>, new: Seq<Event>, r: Result<(), RuntimeError>, fin: CfKind) -> bool {
    match b {
        Block::Empty(_) => new == old && r is Ok && fin is Normal,
        Block::NonEmpty(stmts) => {
            let n = new.len() - old.len();      // number of statements that ran
            extends(old, new) && n <= stmts@.len()
            && (forall|k: int| 0 <= k < n - 1 ==> #[trigger] new[old.len() + k] == Event::Stmt(stmts@[k], CfKind::Normal))
            && match r {
                Ok(()) => if n == 0 { stmts@.len() == 0 && fin is Normal } else {
                    new[new.len() - 1] == Event::Stmt(stmts@[n - 1], fin) && (n == stmts@.len() || !(fin is Normal)) },
                Err(e) => n >= 1 && new[new.len() - 1] == Event::StmtErr(stmts@[n - 1], e),
            }
        },
    }
}

/// program: blocks 0..n ran in order, each started in Normal state; it stopped at n < len only because block n-1 left a
/// non-Normal state (break / continue / return outside any loop or function) or failed
pub open spec fn program_run(p: Program, old: Seq<Event>, new: Seq<Event>, r: Result<(), RuntimeError>, fin: CfKind) -> bool {
    let n = new.len() - old.len();
    extends(old, new) && n <= p.code@.len()
    && (forall|k: int| 0 <= k < n - 1 ==> #[trigger] new[old.len() + k] == Event::Block(p.code@[k], CfKind::Normal))
    && match r {
        Ok(()) => if n == 0 { p.code@.len() == 0 && fin is Normal } else {
            new[new.len() - 1] == Event::Block(p.code@[n - 1], fin) && (n == p.code@.len() || !(fin is Normal)) },
        Err(e) => n >= 1 && new[new.len() - 1] == Event::BlockErr(p.code@[n - 1], e),
    }
}

/// one completed loop iteration that goes on to the next (events t[at..at+4]): condition held, body ran in
/// its own scope and left Normal or Continuing
pub open spec fn is_iteration(t: Seq<Event>, at: int, invert: bool, c: Expression, b: Block) -> bool {
    at >= 0 && at + 4 <= t.len()
    && (match t[at] { Event::Eval(e, v) => e == c && (invert != truthy(v.v())), _ => false })
    && t[at + 1] == Event::Push
    && (match t[at + 2] { Event::Block(bb, st) => bb == b && (st is Normal || st is Continuing), _ => false })
    && t[at + 3] == Event::Pop
}
pub open spec fn mark(j: int) -> int { j }     // trigger anchor only
/// t[start..end] is k full iterations, nothing else
pub open spec fn loop_prefix(t: Seq<Event>, start: int, end: int, invert: bool, c: Expression, b: Block) -> bool {
    start <= end <= t.len() && (end - start) % 4 == 0
    && forall|j: int| 0 <= j < (end - start) / 4 ==> is_iteration(t, start + 4 * #[trigger] mark(j), invert, c, b)
}
/// a loop that returned Ok: full iterations, then either the condition failed to hold (loop over, state
/// Normal) or a last body left Breaking (state reset to Normal) / Returning (state kept) and the condition
/// was NOT evaluated again
pub open spec fn loop_done(old: Seq<Event>, new: Seq<Event>, invert: bool, c: Expression, b: Block, fin: CfKind) -> bool {
    let n = new.len() as int;
    extends(old, new) && (
        (n >= old.len() + 1 && loop_prefix(new, old.len() as int, n - 1, invert, c, b)
            && (match new[n - 1] { Event::Eval(e, v) => e == c && (invert == truthy(v.v())), _ => false }) && fin is Normal)
        ||
        (n >= old.len() + 4 && loop_prefix(new, old.len() as int, n - 4, invert, c, b)
            && (match new[n - 4] { Event::Eval(e, v) => e == c && (invert != truthy(v.v())), _ => false })
            && new[n - 3] == Event::Push
            && (match new[n - 2] { Event::Block(bb, st) => bb == b && ((st is Breaking && fin is Normal) || (st is Returning && fin is Returning)), _ => false })
            && new[n - 1] == Event::Pop)
    )
}

pub open spec fn if_done(old: Seq<Event>, new: Seq<Event>, i: If, fin: CfKind) -> bool {
    let seg = suffix(old, new);
    extends(old, new) && seg.len() >= 3
    && seg[1] == Event::Push && seg.last() == Event::Pop
    && match seg[0] {
        Event::Eval(e, v) => e == i.condition && (
            if truthy(v.v()) {
                seg.len() == 4 && seg[2] == Event::Block(i.then_block, fin)
            } else {
                match i.else_block {
                    Some(eb) => seg.len() == 4 && seg[2] == Event::Block(eb, fin),
                    None => seg.len() == 3 && fin is Normal,
                }
            }),
        _ => false,
    }
}
