// ---- reference tables (Rockstar grammar: symbols and worded operators)
pub open spec fn ref_binary(t: TokenType) -> Option<BinaryOperator> {
    match t {
        TokenType::Plus => Some(BinaryOperator::Plus),          // + plus
        TokenType::With => Some(BinaryOperator::Plus),          // with
        TokenType::Minus => Some(BinaryOperator::Minus),        // - minus without
        TokenType::Multiply => Some(BinaryOperator::Multiply),  // * times of
        TokenType::Divide => Some(BinaryOperator::Divide),      // / over between
        TokenType::And => Some(BinaryOperator::And),
        TokenType::Or => Some(BinaryOperator::Or),
        TokenType::Nor => Some(BinaryOperator::Nor),
        TokenType::Greater => Some(BinaryOperator::Greater),    // >
        TokenType::Bigger => Some(BinaryOperator::Greater),     // higher/greater/bigger/stronger (than)
        TokenType::GreaterEq => Some(BinaryOperator::GreaterEq),// >=
        TokenType::Big => Some(BinaryOperator::GreaterEq),      // as high/great/big/strong as
        TokenType::Less => Some(BinaryOperator::Less),          // <
        TokenType::Smaller => Some(BinaryOperator::Less),       // lower/less/smaller/weaker (than)
        TokenType::LessEq => Some(BinaryOperator::LessEq),      // <=
        TokenType::Small => Some(BinaryOperator::LessEq),       // as low/little/small/weak as
        TokenType::Isnt => Some(BinaryOperator::NotEq),         // isn't / ain't ...
        _ => None,
    }
}
pub open spec fn ref_unary(t: TokenType) -> Option<UnaryOperator> {
    match t { TokenType::Minus => Some(UnaryOperator::Minus), TokenType::Not => Some(UnaryOperator::Not), _ => None }
}
pub open spec fn ref_mutation(t: TokenType) -> Option<MutationOperator> {
    match t { TokenType::Cut => Some(MutationOperator::Cut), TokenType::Join => Some(MutationOperator::Join), TokenType::Cast => Some(MutationOperator::Cast), _ => None }
}
pub open spec fn ref_rounding(t: TokenType) -> Option<RoundingDirection> {
    match t { TokenType::Up => Some(RoundingDirection::Up), TokenType::Down => Some(RoundingDirection::Down), TokenType::Round => Some(RoundingDirection::Nearest), _ => None }
}
pub open spec fn ref_literal_word(t: TokenType) -> bool {
    t is Mysterious || t is Null || t is Number || t is StringLiteral || t is Empty || t is True || t is False
}

