// ===================================================================================================
// Model for the constant-folder unit.  AST nodes the folder recurses into are opaque; recursion goes
// through the abstract `visit_expression`, whose result on a node is the uninterpreted `fold_of(node)`
// (so each method is verified for arbitrary subtrees) and which logs the node it was asked to fold.
// f64 operations are uninterpreted (`fop`), the same symbols the interpreter units use.
// ===================================================================================================
#[verifier::external_body] pub struct Expression { _p: u8 }
#[verifier::external_body] pub struct ArrayPopExpr { _p: u8 }
#[verifier::external_body] pub struct ArraySubscript { _p: u8 }
#[verifier::external_body] pub struct SourceRange { _p: u8 }
#[verifier::external_body] pub struct SimpleIdentifier { _p: u8 }
#[verifier::external_body] pub struct CommonIdentifier { _p: u8 }
#[verifier::external_body] pub struct ProperIdentifier { _p: u8 }
#[verifier::external_body] pub struct PoeticNumberLiteral { _p: u8 }
pub struct WithRange<T>(pub T, pub SourceRange);
//@item src/frontend/ast.rs | enum | LiteralExpression
//@end
//@item src/frontend/ast.rs | enum | UnaryOperator
//@derive Clone, Copy
//@end
//@item src/frontend/ast.rs | enum | BinaryOperator
//@derive Clone, Copy
//@end
//@item src/frontend/ast.rs | struct | UnaryExpression
//@end
//@item src/frontend/ast.rs | struct | BinaryExpression
//@end
//@item src/frontend/ast.rs | struct | ExpressionList
//@end
//@item src/analysis/tools.rs | enum | ConstantFoldingError
//@derive Clone, Copy
//@end
pub use ConstantFoldingError::*;
//@item src/analysis/tools.rs | struct | NumericConstant
//@derive Clone, Copy
//@end

pub uninterp spec fn fop(c: char, a: f64, b: f64) -> f64;     // IEEE + - * /  (Kani: c17__numeric_constant_ops)
pub uninterp spec fn fneg(a: f64) -> f64;
impl PoeticNumberLiteral {
    pub uninterp spec fn spec_value(&self) -> f64;
    /// `PoeticNumberLiteral::compute_value` (ast.rs) — the very function ProduceVal::visit_poetic_number_literal calls
    #[verifier::external_body] pub fn compute_value(&self) -> (r: f64) ensures r == self.spec_value() { unimplemented!() }
}
impl NumericConstant {
    /// derive_more::From<f64>
    pub fn from(value: f64) -> (r: Self) ensures r == (NumericConstant { value }) { NumericConstant { value } }
}
/// `a + b` etc. on NumericConstant (derive_more Add/Sub, hand-written Mul/Div: payload-wise; Kani proves that on the binary)
pub open spec fn spec_nc_binop(c: char, a: NumericConstant, b: NumericConstant) -> NumericConstant { NumericConstant { value: fop(c, a.value, b.value) } }
#[verifier::external_body]
#[verifier::when_used_as_spec(spec_nc_binop)]
pub fn nc_binop(c: char, a: NumericConstant, b: NumericConstant) -> (r: NumericConstant)
    ensures r == spec_nc_binop(c, a, b)
{ unimplemented!() }
#[verifier::external_body]
pub fn nc_neg(a: NumericConstant) -> (r: NumericConstant) ensures r == (NumericConstant { value: fneg(a.value) }) { unimplemented!() }

/// what folding a (sub)expression yields — uninterpreted: every method is verified for arbitrary children
pub uninterp spec fn fold_of(e: Expression) -> Result<NumericConstant, ConstantFoldingError>;

pub struct NumericConstantFolder { pub log: Ghost<Seq<Expression>> }
impl NumericConstantFolder {
    #[verifier::external_body]
    pub fn visit_expression(&mut self, e: &Expression) -> (r: Result<NumericConstant, ConstantFoldingError>)
        ensures r == fold_of(*e), final(self).log@ == old(self).log@.push(*e)
    { unimplemented!() }
}

// ---- C17: the fold of a binary expression
pub open spec fn operands(l: ExpressionList) -> Seq<Expression> { seq![l.first] + l.rest@ }
/// one step: only + - * / combine, accumulator on the left; an operand's error is returned as is
pub open spec fn fold_step(op: BinaryOperator, a: NumericConstant, b: Result<NumericConstant, ConstantFoldingError>) -> Result<NumericConstant, ConstantFoldingError> {
    match op {
        BinaryOperator::Plus => match b { Ok(x) => Ok(NumericConstant { value: fop('+', a.value, x.value) }), Err(e) => Err(e) },
        BinaryOperator::Minus => match b { Ok(x) => Ok(NumericConstant { value: fop('-', a.value, x.value) }), Err(e) => Err(e) },
        BinaryOperator::Multiply => match b { Ok(x) => Ok(NumericConstant { value: fop('*', a.value, x.value) }), Err(e) => Err(e) },
        BinaryOperator::Divide => match b { Ok(x) => Ok(NumericConstant { value: fop('/', a.value, x.value) }), Err(e) => Err(e) },
        _ => Err(ConstantFoldingError::WrongType),
    }
}
/// left fold from operand i on, stopping at the first error
pub open spec fn fold_list(op: BinaryOperator, acc: NumericConstant, ops: Seq<Expression>, i: int) -> Result<NumericConstant, ConstantFoldingError>
    decreases ops.len() - i
{
    if i < 0 || i >= ops.len() { Ok(acc) } else {
        match fold_step(op, acc, fold_of(ops[i])) { Ok(x) => fold_list(op, x, ops, i + 1), Err(e) => Err(e) }
    }
}
/// how many operands get evaluated (all of them, or up to and including the one where the fold stops)
pub open spec fn evaluated(op: BinaryOperator, acc: NumericConstant, ops: Seq<Expression>, i: int) -> int
    decreases ops.len() - i
{
    if i < 0 || i >= ops.len() { ops.len() as int } else {
        match fold_step(op, acc, fold_of(ops[i])) { Ok(x) => evaluated(op, x, ops, i + 1), Err(e) => i + 1 }
    }
}

/// `iter::once(&l.first).chain(l.rest.iter()).map(|e| self.visit_expression(e))` followed by `.try_fold(init, f)`
/// (rule 5): lazily evaluates operands in order, applies `f`, stops at the first Err.  std's meaning of these
/// adapters, with the step function read from the closure's own (verified) postcondition.
pub struct LazyOperands<'a> { pub list: &'a ExpressionList }
impl<'a> LazyOperands<'a> {
    pub fn new(list: &'a ExpressionList) -> (r: Self) ensures r.list == list { LazyOperands { list } }
    #[verifier::external_body]
    pub fn try_fold<F: Fn(NumericConstant, Result<NumericConstant, ConstantFoldingError>) -> Result<NumericConstant, ConstantFoldingError>>(
        &mut self, folder: &mut NumericConstantFolder, init: NumericConstant, f: F, Ghost(op): Ghost<BinaryOperator>,
    ) -> (r: Result<NumericConstant, ConstantFoldingError>)
        requires
            forall|a: NumericConstant, b: Result<NumericConstant, ConstantFoldingError>| f.requires((a, b)),
            forall|a: NumericConstant, b: Result<NumericConstant, ConstantFoldingError>, y: Result<NumericConstant, ConstantFoldingError>|
                f.ensures((a, b), y) ==> y == fold_step(op, a, b),
        ensures
            r == fold_list(op, init, operands(*old(self).list), 0),
            final(folder).log@ == old(folder).log@ + operands(*old(self).list).subrange(0, evaluated(op, init, operands(*old(self).list), 0)),
    { unimplemented!() }
}
