// ===================================================================================================
// Model for the call-protocol unit (C05).
// ===================================================================================================
#[verifier::external_body] pub struct Expression { _p: u8 }
#[verifier::external_body] pub struct Block { _p: u8 }
#[verifier::external_body] pub struct VariableName { _p: u8 }
#[verifier::external_body] pub struct SourceRange { _p: u8 }
#[verifier::external_body] pub struct EnvironmentError { _p: u8 }
#[verifier::external_body] pub struct WriteValError { _p: u8 }
#[verifier::external_body] pub struct ExecError { _p: u8 }
pub struct WithRange<T>(pub T, pub SourceRange);
//@item src/frontend/ast.rs | struct | FunctionCall
//@end
//@item src/frontend/ast.rs | struct | FunctionData
//@end
//@item src/exec/produce_val.rs | enum | ProduceValError
//@end
//@item src/exec/mod.rs | enum | RuntimeError
//@end
//@item src/exec/produce_val.rs | struct | ProduceValOutput
//@end
pub fn lift_env<T>(r: Result<T, EnvironmentError>) -> (o: Result<T, RuntimeError>)
    ensures o == (match r { Ok(x) => Ok::<T, RuntimeError>(x), Err(e) => Err::<T, RuntimeError>(RuntimeError::EnvironmentError(e)) })
{ match r { Ok(x) => Ok(x), Err(e) => Err(RuntimeError::EnvironmentError(e)) } }

pub enum CEvent {
    Lookup(VariableName, Result<Arc<FunctionData>, EnvironmentError>),   // function looked up by name
    Arg(Expression, Result<Val, RuntimeError>),                          // argument expression evaluated
    PushFn(Seq<WithRange<VariableName>>, Seq<Val>, Option<EnvironmentError>),  // fresh function scope: param i := arg value i
    Body(Block, Result<Option<Val>, RuntimeError>),                      // body run by a FRESH executor; its return value if any
    Pop,                                                                 // function scope popped
}

/// a fresh statement executor (`ExecStmt::new`): Normal state, no return value yet
pub struct ExecStmtAbs { pub return_val: Option<Val>, pub fresh: Ghost<bool> }
impl ExecStmtAbs {
    pub fn new() -> (r: Self) ensures r.fresh@, r.return_val is None { ExecStmtAbs { return_val: None, fresh: Ghost(true) } }
}
pub struct ProduceVal { pub trace: Ghost<Seq<CEvent>> }
impl ProduceVal {
    #[verifier::external_body]
    pub fn env_lookup_func(&mut self, name: &VariableName) -> (r: Result<Arc<FunctionData>, EnvironmentError>)
        ensures final(self).trace@ == old(self).trace@.push(CEvent::Lookup(*name, r))
    { unimplemented!() }
    #[verifier::external_body]
    pub fn visit_expression(&mut self, e: &Expression) -> (r: Result<ProduceValOutput, RuntimeError>)
        ensures final(self).trace@ == old(self).trace@.push(CEvent::Arg(*e, match r { Ok(v) => Ok::<Val, RuntimeError>(v.0), Err(x) => Err::<Val, RuntimeError>(x) }))
    { unimplemented!() }
    /// `env.push_function_scope(params.iter().map(|a| &a.0).zip(args.into_iter()))`: binds parameter i to argument i by
    /// value in a fresh scope (Environment / SymTable::for_function_call, units env / sym_table)
    #[verifier::external_body]
    pub fn env_push_function_scope(&mut self, params: &Vec<WithRange<VariableName>>, args: Vec<Val>) -> (r: Result<(), EnvironmentError>)
        ensures final(self).trace@ == old(self).trace@.push(CEvent::PushFn(params@, args@, match r { Ok(_) => None, Err(e) => Some(e) }))
    { unimplemented!() }
    /// `exec.visit_block(body)` on the given executor, which must be fresh
    #[verifier::external_body]
    pub fn run_body(&mut self, exec: &mut ExecStmtAbs, body: &Block) -> (r: Result<(), RuntimeError>)
        requires old(exec).fresh@,
        ensures final(self).trace@ == old(self).trace@.push(CEvent::Body(*body, match r { Ok(_) => Ok::<Option<Val>, RuntimeError>(final(exec).return_val), Err(x) => Err::<Option<Val>, RuntimeError>(x) })),
    { unimplemented!() }
    #[verifier::external_body]
    pub fn env_pop_scope(&mut self)
        ensures final(self).trace@ == old(self).trace@.push(CEvent::Pop)
    { unimplemented!() }
}

/// C05: look the function up; wrong arity is an error BEFORE any argument is evaluated; arguments are evaluated
/// left to right, each once, stopping at the first error; then parameters are bound to the argument values in a
/// fresh scope, the body runs with a fresh executor, the scope is popped, and the call yields the first returned
/// value (mysterious if none)
pub open spec fn call_protocol(f: FunctionCall, old: Seq<CEvent>, new: Seq<CEvent>, r: Result<ProduceValOutput, RuntimeError>) -> bool {
    let o = old.len() as int;
    let n = f.args@.len() as int;
    new.len() > old.len() && (forall|i: int| 0 <= i < o ==> #[trigger] new[i] == old[i])
    && match new[o] {
        CEvent::Lookup(name, Err(e)) => name == f.name.0 && new.len() == o + 1 && r == Err::<ProduceValOutput, RuntimeError>(RuntimeError::EnvironmentError(e)),
        CEvent::Lookup(name, Ok(data)) => name == f.name.0 && (
            if data.params@.len() != n {
                new.len() == o + 1 && r == Err::<ProduceValOutput, RuntimeError>(RuntimeError::ProduceValError(
                    ProduceValError::WrongNumberOfFunctionArguments { expected: data.params@.len() as usize, actual: n as usize }))
            } else {
                let k = new.len() - o - 1;      // events after the lookup
                // either an argument failed: arguments 0..k-1 evaluated in order, the last one is the failure
                (1 <= k <= n && (forall|j: int| 0 <= j < k - 1 ==> (#[trigger] new[o + 1 + j] matches CEvent::Arg(e, Ok(_)) && e == f.args@[j]))
                    && (new[o + k] matches CEvent::Arg(e, Err(x)) && e == f.args@[k - 1] && r == Err::<ProduceValOutput, RuntimeError>(x)))
                // or all n arguments were evaluated in order, then bind / run / pop
                || (k >= n + 1 && (forall|j: int| 0 <= j < n ==> (#[trigger] new[o + 1 + j] matches CEvent::Arg(e, Ok(_)) && e == f.args@[j]))
                    && match new[o + 1 + n] {
                        CEvent::PushFn(ps, vals, Some(e)) => k == n + 1 && r == Err::<ProduceValOutput, RuntimeError>(RuntimeError::EnvironmentError(e)),
                        CEvent::PushFn(ps, vals, None) => ps == data.params@ && vals.len() == n
                            && (forall|j: int| 0 <= j < n ==> #[trigger] new[o + 1 + j] == CEvent::Arg(f.args@[j], Ok::<Val, RuntimeError>(vals[j])))
                            && k >= n + 2 && match new[o + 2 + n] {
                                CEvent::Body(b, Err(x)) => b == data.body && k == n + 2 && r == Err::<ProduceValOutput, RuntimeError>(x),
                                CEvent::Body(b, Ok(ret)) => b == data.body && k == n + 3 && new[o + 3 + n] == CEvent::Pop
                                    && r == Ok::<ProduceValOutput, RuntimeError>(ProduceValOutput(match ret { Some(v) => v, None => Val::Undefined })),
                                _ => false,
                            },
                        _ => false,
                    })
            }),
        _ => false,
    }
}
