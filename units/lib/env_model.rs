// ===================================================================================================
// Model for the environment unit: `SymTable` is abstract with a contract over a map keyed by the
// case-folded name (`key`, uninterpreted: its Unicode content is not verified, its *use on every path* is
// part of SymTable's own unit).
// ===================================================================================================
#[verifier::external_body] pub struct VariableName { _p: u8 }
#[verifier::external_body] pub struct FunctionData { _p: u8 }
#[verifier::external_body] pub struct NameKey { _p: u8 }
pub uninterp spec fn key(n: VariableName) -> NameKey;           // to_lowercase of the right identifier kind
impl VClone for VariableName { #[verifier::external_body] fn vclone(&self) -> (r: Self) { unimplemented!() } }
impl VClone for Option<VariableName> { #[verifier::external_body] fn vclone(&self) -> (r: Self) { unimplemented!() } }

//@item src/exec/sym_table.rs | enum | SymTableError
//@end
//@item src/exec/sym_table.rs | enum | SymTableEntry
//@end
//@item src/exec/environment.rs | enum | EnvironmentError
//@end

#[verifier::external_body] pub struct SymTable { _p: u8 }
pub type Scope = Map<NameKey, SymTableEntry>;
impl SymTable {
    pub uninterp spec fn view(self) -> Scope;
    #[verifier::external_body]
    pub fn new() -> (r: SymTable) ensures r.view() == Map::<NameKey, SymTableEntry>::empty() { unimplemented!() }
}
/// what `SymTable::lookup_var` returns on a scope (contract of sym_table.rs, proved in its own unit)
pub open spec fn table_lookup_var(s: Scope, name: VariableName) -> Result<Val, SymTableError> {
    if !s.contains_key(key(name)) { Err(SymTableError::NameNotFound(name)) } else {
        match s[key(name)] {
            SymTableEntry::Var(v) => Ok(v),
            SymTableEntry::Func(_) => Err(SymTableError::ExpectedVarFoundFunc(name)),
        }
    }
}
pub open spec fn table_lookup_func(s: Scope, name: VariableName) -> Result<Arc<FunctionData>, SymTableError> {
    if !s.contains_key(key(name)) { Err(SymTableError::NameNotFound(name)) } else {
        match s[key(name)] {
            SymTableEntry::Func(f) => Ok(f),
            SymTableEntry::Var(_) => Err(SymTableError::ExpectedFuncFoundVar(name)),
        }
    }
}

impl SymTable {
    // contracts of sym_table.rs's public lookups (assumed here)
    #[verifier::external_body]
    pub fn lookup_var(&self, name: &VariableName) -> (r: Result<&Val, SymTableError>)
        ensures match table_lookup_var(self.view(), *name) { Ok(v) => r is Ok && *r->Ok_0 == v, Err(e) => r == Err::<&Val, SymTableError>(e) }
    { unimplemented!() }
    #[verifier::external_body]
    pub fn lookup_func(&self, name: &VariableName) -> (r: Result<Arc<FunctionData>, SymTableError>)
        ensures r == table_lookup_func(self.view(), *name)
    { unimplemented!() }
}

// ---- SymTable::for_function_call (contract proved in unit sym_table, restated over this model's keys; the generic iterator
// argument is instantiated at Vec): parameters are bound in order, a name that repeats an earlier one (same folded key) is an error
pub open spec fn bound_k(s: Seq<(&VariableName, Val)>, k: int, kx: NameKey) -> Option<Val> decreases k {
    if k <= 0 { None } else if key(*s[k - 1].0) == kx { Some(s[k - 1].1) } else { bound_k(s, k - 1, kx) }
}
pub open spec fn first_dup_k(s: Seq<(&VariableName, Val)>, i: int) -> int decreases s.len() - i {
    if i < 0 || i >= s.len() { s.len() as int } else if bound_k(s, i, key(*s[i].0)) is Some { i } else { first_dup_k(s, i + 1) }
}
/// the scope holds exactly the parameters, each with its argument value
pub open spec fn params_scope(sc: Scope, s: Seq<(&VariableName, Val)>) -> bool {
    forall|kx: NameKey| (#[trigger] sc.contains_key(kx) <==> bound_k(s, s.len() as int, kx) is Some)
        && (sc.contains_key(kx) ==> sc[kx] == SymTableEntry::Var(bound_k(s, s.len() as int, kx)->Some_0))
}
impl SymTable {
    #[verifier::external_body]
    pub fn for_function_call<'a>(args: Vec<(&'a VariableName, Val)>) -> (r: Result<SymTable, SymTableError>)
        ensures first_dup_k(args@, 0) == args@.len() ==> r is Ok && params_scope(r->Ok_0.view(), args@),
            first_dup_k(args@, 0) < args@.len() ==> r == Err::<SymTable, SymTableError>(SymTableError::DuplicateFunctionArgName(*args@[first_dup_k(args@, 0)].0)),
    { unimplemented!() }
}

pub struct Environment {
    pub symbols: Vec<SymTable>,
    pub last_access: Option<VariableName>,
}
impl Environment {
    pub open spec fn scopes(self) -> Seq<Scope> { views(self.symbols@) }
}

/// Environment::stop_searching: a scope decides the search unless it simply does not know the name
pub open spec fn stops<T>(r: Result<T, SymTableError>) -> bool {
    match r { Ok(_) => true, Err(e) => !(e is NameNotFound) }
}

// ---- C05: lookups see the innermost scope that knows the name (of either kind)
/// index of the innermost scope that has the name at all, if any
pub open spec fn innermost(scopes: Seq<Scope>, name: VariableName) -> Option<int> {
    if exists|i: int| 0 <= i < scopes.len() && scopes[i].contains_key(key(name)) {
        Some(choose|i: int| 0 <= i < scopes.len() && scopes[i].contains_key(key(name))
            && forall|j: int| i < j < scopes.len() ==> !scopes[j].contains_key(key(name)))
    } else { None }
}
pub open spec fn is_innermost(scopes: Seq<Scope>, name: VariableName, i: int) -> bool {
    0 <= i < scopes.len() && scopes[i].contains_key(key(name))
    && forall|j: int| i < j < scopes.len() ==> !scopes[j].contains_key(key(name))
}
pub open spec fn nowhere(scopes: Seq<Scope>, name: VariableName) -> bool {
    forall|j: int| 0 <= j < scopes.len() ==> !scopes[j].contains_key(key(name))
}
pub open spec fn lookup_var_matches(scopes: Seq<Scope>, name: VariableName, r: Result<&Val, EnvironmentError>) -> bool {
    (nowhere(scopes, name) && r == Err::<&Val, EnvironmentError>(EnvironmentError::SymTableError(SymTableError::NameNotFound(name))))
    || exists|i: int| #[trigger] is_innermost(scopes, name, i) && match table_lookup_var(scopes[i], name) {
            Ok(v) => r is Ok && *r->Ok_0 == v,
            Err(e) => r == Err::<&Val, EnvironmentError>(EnvironmentError::SymTableError(e)),
        }
}
pub open spec fn lookup_func_matches(scopes: Seq<Scope>, name: VariableName, r: Result<Arc<FunctionData>, EnvironmentError>) -> bool {
    (nowhere(scopes, name) && r == Err::<Arc<FunctionData>, EnvironmentError>(EnvironmentError::SymTableError(SymTableError::NameNotFound(name))))
    || exists|i: int| #[trigger] is_innermost(scopes, name, i) && match table_lookup_func(scopes[i], name) {
            Ok(v) => r == Ok::<Arc<FunctionData>, EnvironmentError>(v),
            Err(e) => r == Err::<Arc<FunctionData>, EnvironmentError>(EnvironmentError::SymTableError(e)),
        }
}

pub open spec fn lift_sym<T>(r: Result<T, SymTableError>) -> Result<T, EnvironmentError> {
    match r { Ok(x) => Ok(x), Err(e) => Err(EnvironmentError::SymTableError(e)) }
}
/// `r.map_err(Into::into)` with derive_more::From<SymTableError> for EnvironmentError
pub fn lift_sym_exec<T>(r: Result<T, SymTableError>) -> (o: Result<T, EnvironmentError>) ensures o == lift_sym(r)
{ match r { Ok(x) => Ok(x), Err(e) => Err(EnvironmentError::SymTableError(e)) } }

// ---- the iterator chain `tables.iter()[.rev()].map(|t| t.lookup_X(name)).find(stop_searching)`  (rule 5):
// replaced by one call whose direction parameter is read off the chain; spec = std's iter/rev/map/find.
pub open spec fn first_hit_fwd(scopes: Seq<Scope>, name: VariableName, i: int) -> bool {
    0 <= i < scopes.len() && scopes[i].contains_key(key(name)) && forall|j: int| 0 <= j < i ==> !scopes[j].contains_key(key(name))
}
pub open spec fn hit(scopes: Seq<Scope>, rev: bool, name: VariableName, i: int) -> bool {
    if rev { is_innermost(scopes, name, i) } else { first_hit_fwd(scopes, name, i) }
}
pub open spec fn views(tables: Seq<SymTable>) -> Seq<Scope> { tables.map_values(|t: SymTable| t.view()) }
#[verifier::external_body]
pub fn search_lookup_var<'a>(tables: &'a Vec<SymTable>, rev: bool, name: &VariableName) -> (r: Option<Result<&'a Val, SymTableError>>)
    ensures
        match r {
            None => nowhere(views(tables@), *name),
            Some(x) => exists|i: int| #[trigger] hit(views(tables@), rev, *name, i)
                && (match table_lookup_var(views(tables@)[i], *name) { Ok(v) => x is Ok && *x->Ok_0 == v, Err(e) => x == Err::<&Val, SymTableError>(e) }),
        },
{ unimplemented!() }
#[verifier::external_body]
pub fn search_lookup_func(tables: &Vec<SymTable>, rev: bool, name: &VariableName) -> (r: Option<Result<Arc<FunctionData>, SymTableError>>)
    ensures
        match r {
            None => nowhere(views(tables@), *name),
            Some(x) => exists|i: int| #[trigger] hit(views(tables@), rev, *name, i) && x == table_lookup_func(views(tables@)[i], *name),
        },
{ unimplemented!() }

// ---- the mutable path (contracts of SymTable::lookup_var_mut / emplace_var / emplace_func: proved in unit sym_table)
pub uninterp spec fn sp_val_default() -> Val;      // Val::default()
impl SymTable {
    #[verifier::external_body]
    pub fn lookup_var_mut(&mut self, name: &VariableName) -> (r: Result<&mut Val, SymTableError>)
        ensures match table_lookup_var(old(self).view(), *name) {
            Ok(v) => r is Ok && *r->Ok_0 == v && final(self).view() == old(self).view().insert(key(*name), SymTableEntry::Var(*final(r->Ok_0))),
            Err(e) => r == Err::<&mut Val, SymTableError>(e) && final(self).view() == old(self).view(),
        }
    { unimplemented!() }
    #[verifier::external_body]
    pub fn emplace_var(&mut self, name: &VariableName) -> (r: Result<&mut Val, SymTableError>)
        ensures old(self).view().contains_key(key(*name)) ==> r == Err::<&mut Val, SymTableError>(SymTableError::DuplicateSymbol(*name)) && final(self).view() == old(self).view(),
            !old(self).view().contains_key(key(*name)) ==> r is Ok && *r->Ok_0 == sp_val_default()
                && final(self).view() == old(self).view().insert(key(*name), SymTableEntry::Var(*final(r->Ok_0))),
    { unimplemented!() }
    #[verifier::external_body]
    pub fn emplace_func(&mut self, name: &VariableName, func: Arc<FunctionData>) -> (r: Result<(), SymTableError>)
        ensures old(self).view().contains_key(key(*name)) ==> r == Err::<(), SymTableError>(SymTableError::DuplicateSymbol(*name)) && final(self).view() == old(self).view(),
            !old(self).view().contains_key(key(*name)) ==> r is Ok && final(self).view() == old(self).view().insert(key(*name), SymTableEntry::Func(func)),
    { unimplemented!() }
}
/// `tables.iter_mut().rev().map(|t| t.lookup_var_mut(name)).find(stop_searching)`: as search_lookup_var, and the only
/// table that can change is the one hit, at the name's entry, through the reference returned
#[verifier::external_body]
pub fn search_lookup_var_mut<'a>(tables: &'a mut Vec<SymTable>, rev: bool, name: &VariableName) -> (r: Option<Result<&'a mut Val, SymTableError>>)
    ensures final(tables)@.len() == old(tables)@.len(),
        match r {
            None => nowhere(views(old(tables)@), *name) && views(final(tables)@) == views(old(tables)@),
            Some(x) => exists|i: int| #[trigger] hit(views(old(tables)@), rev, *name, i)
                && (match table_lookup_var(views(old(tables)@)[i], *name) {
                        Ok(v) => x is Ok && *x->Ok_0 == v
                            && views(final(tables)@) == views(old(tables)@).update(i, views(old(tables)@)[i].insert(key(*name), SymTableEntry::Var(*final(x->Ok_0)))),
                        Err(e) => x == Err::<&mut Val, SymTableError>(e) && views(final(tables)@) == views(old(tables)@) }),
        },
{ unimplemented!() }
/// a successful mutable lookup: the reference is to the variable in the innermost scope that knows the name, and writing
/// through it changes exactly that entry
pub open spec fn lookup_var_mut_matches(o: Seq<Scope>, f: Seq<Scope>, name: VariableName, r: Result<&mut Val, EnvironmentError>, fin: Val) -> bool {
    (nowhere(o, name) && r == Err::<&mut Val, EnvironmentError>(EnvironmentError::SymTableError(SymTableError::NameNotFound(name))) && f == o)
    || exists|i: int| #[trigger] is_innermost(o, name, i) && match table_lookup_var(o[i], name) {
            Ok(v) => r is Ok && *r->Ok_0 == v && f == o.update(i, o[i].insert(key(name), SymTableEntry::Var(fin))),
            Err(e) => r == Err::<&mut Val, EnvironmentError>(EnvironmentError::SymTableError(e)) && f == o,
        }
}
/// `v.last_mut()` (slice method through Vec's DerefMut)
#[verifier::external_body]
pub fn vec_last_mut<T>(v: &mut Vec<T>) -> (r: Option<&mut T>)
    ensures old(v)@.len() == 0 ==> r is None && final(v)@ == old(v)@,
        old(v)@.len() > 0 ==> r is Some && *r->Some_0 == old(v)@.last() && final(v)@ == old(v)@.update(old(v)@.len() - 1, *final(r->Some_0)),
{ unimplemented!() }
