// ===================================================================================================
// Model for the environment unit: `SymTable` is abstract with a contract over a map keyed by the
// case-folded name (`key`, uninterpreted: its Unicode content is not verified, its *use on every path* is
// part of SymTable's own unit).
// ===================================================================================================
#[verifier::external_body] pub struct VariableName { _p: u8 }
#[verifier::external_body] pub struct FunctionData { _p: u8 }
#[verifier::external_body] pub struct NameKey { _p: u8 }
pub uninterp spec fn key(n: VariableName) -> NameKey;           // to_lowercase of the right identifier kind
impl VClone for VariableName { #[verifier::external_body] fn vclone(&self) -> (r: Self) { unimplemented!() } }

//@item src/exec/sym_table.rs | enum | SymTableError
//@end
//@item src/exec/sym_table.rs | enum | SymTableEntry
//@end
//@item src/exec/environment.rs | enum | EnvironmentError
//@end

#[verifier::external_body] pub struct SymTable { _p: u8 }
pub type Scope = Map<NameKey, SymTableEntry>;
impl SymTable {
    pub uninterp spec fn view(self) -> Scope;
    #[verifier::external_body]
    pub fn new() -> (r: SymTable) ensures r.view() == Map::<NameKey, SymTableEntry>::empty() { unimplemented!() }
}
/// what `SymTable::lookup_var` returns on a scope (contract of sym_table.rs, proved in its own unit)
pub open spec fn table_lookup_var(s: Scope, name: VariableName) -> Result<Val, SymTableError> {
    if !s.contains_key(key(name)) { Err(SymTableError::NameNotFound(name)) } else {
        match s[key(name)] {
            SymTableEntry::Var(v) => Ok(v),
            SymTableEntry::Func(_) => Err(SymTableError::ExpectedVarFoundFunc(name)),
        }
    }
}
pub open spec fn table_lookup_func(s: Scope, name: VariableName) -> Result<Arc<FunctionData>, SymTableError> {
    if !s.contains_key(key(name)) { Err(SymTableError::NameNotFound(name)) } else {
        match s[key(name)] {
            SymTableEntry::Func(f) => Ok(f),
            SymTableEntry::Var(_) => Err(SymTableError::ExpectedFuncFoundVar(name)),
        }
    }
}

impl SymTable {
    // contracts of sym_table.rs's public lookups (assumed here)
    #[verifier::external_body]
    pub fn lookup_var(&self, name: &VariableName) -> (r: Result<&Val, SymTableError>)
        ensures match table_lookup_var(self.view(), *name) { Ok(v) => r is Ok && *r->Ok_0 == v, Err(e) => r == Err::<&Val, SymTableError>(e) }
    { unimplemented!() }
    #[verifier::external_body]
    pub fn lookup_func(&self, name: &VariableName) -> (r: Result<Arc<FunctionData>, SymTableError>)
        ensures r == table_lookup_func(self.view(), *name)
    { unimplemented!() }
}

pub struct Environment {
    pub symbols: Vec<SymTable>,
    pub last_access: Option<VariableName>,
}
impl Environment {
    pub open spec fn scopes(self) -> Seq<Scope> { views(self.symbols@) }
}

/// Environment::stop_searching: a scope decides the search unless it simply does not know the name
pub open spec fn stops<T>(r: Result<T, SymTableError>) -> bool {
    match r { Ok(_) => true, Err(e) => !(e is NameNotFound) }
}

// ---- C05: lookups see the innermost scope that knows the name (of either kind)
/// index of the innermost scope that has the name at all, if any
pub open spec fn innermost(scopes: Seq<Scope>, name: VariableName) -> Option<int> {
    if exists|i: int| 0 <= i < scopes.len() && scopes[i].contains_key(key(name)) {
        Some(choose|i: int| 0 <= i < scopes.len() && scopes[i].contains_key(key(name))
            && forall|j: int| i < j < scopes.len() ==> !scopes[j].contains_key(key(name)))
    } else { None }
}
pub open spec fn is_innermost(scopes: Seq<Scope>, name: VariableName, i: int) -> bool {
    0 <= i < scopes.len() && scopes[i].contains_key(key(name))
    && forall|j: int| i < j < scopes.len() ==> !scopes[j].contains_key(key(name))
}
pub open spec fn nowhere(scopes: Seq<Scope>, name: VariableName) -> bool {
    forall|j: int| 0 <= j < scopes.len() ==> !scopes[j].contains_key(key(name))
}
pub open spec fn lookup_var_matches(scopes: Seq<Scope>, name: VariableName, r: Result<&Val, EnvironmentError>) -> bool {
    (nowhere(scopes, name) && r == Err::<&Val, EnvironmentError>(EnvironmentError::SymTableError(SymTableError::NameNotFound(name))))
    || exists|i: int| #[trigger] is_innermost(scopes, name, i) && match table_lookup_var(scopes[i], name) {
            Ok(v) => r is Ok && *r->Ok_0 == v,
            Err(e) => r == Err::<&Val, EnvironmentError>(EnvironmentError::SymTableError(e)),
        }
}
pub open spec fn lookup_func_matches(scopes: Seq<Scope>, name: VariableName, r: Result<Arc<FunctionData>, EnvironmentError>) -> bool {
    (nowhere(scopes, name) && r == Err::<Arc<FunctionData>, EnvironmentError>(EnvironmentError::SymTableError(SymTableError::NameNotFound(name))))
    || exists|i: int| #[trigger] is_innermost(scopes, name, i) && match table_lookup_func(scopes[i], name) {
            Ok(v) => r == Ok::<Arc<FunctionData>, EnvironmentError>(v),
            Err(e) => r == Err::<Arc<FunctionData>, EnvironmentError>(EnvironmentError::SymTableError(e)),
        }
}

pub open spec fn lift_sym<T>(r: Result<T, SymTableError>) -> Result<T, EnvironmentError> {
    match r { Ok(x) => Ok(x), Err(e) => Err(EnvironmentError::SymTableError(e)) }
}
/// `r.map_err(Into::into)` with derive_more::From<SymTableError> for EnvironmentError
pub fn lift_sym_exec<T>(r: Result<T, SymTableError>) -> (o: Result<T, EnvironmentError>) ensures o == lift_sym(r)
{ match r { Ok(x) => Ok(x), Err(e) => Err(EnvironmentError::SymTableError(e)) } }

// ---- the iterator chain `tables.iter()[.rev()].map(|t| t.lookup_X(name)).find(stop_searching)`  (rule 5):
// replaced by one call whose direction parameter is read off the chain; spec = std's iter/rev/map/find.
pub open spec fn first_hit_fwd(scopes: Seq<Scope>, name: VariableName, i: int) -> bool {
    0 <= i < scopes.len() && scopes[i].contains_key(key(name)) && forall|j: int| 0 <= j < i ==> !scopes[j].contains_key(key(name))
}
pub open spec fn hit(scopes: Seq<Scope>, rev: bool, name: VariableName, i: int) -> bool {
    if rev { is_innermost(scopes, name, i) } else { first_hit_fwd(scopes, name, i) }
}
pub open spec fn views(tables: Seq<SymTable>) -> Seq<Scope> { tables.map_values(|t: SymTable| t.view()) }
#[verifier::external_body]
pub fn search_lookup_var<'a>(tables: &'a Vec<SymTable>, rev: bool, name: &VariableName) -> (r: Option<Result<&'a Val, SymTableError>>)
    ensures
        match r {
            None => nowhere(views(tables@), *name),
            Some(x) => exists|i: int| #[trigger] hit(views(tables@), rev, *name, i)
                && (match table_lookup_var(views(tables@)[i], *name) { Ok(v) => x is Ok && *x->Ok_0 == v, Err(e) => x == Err::<&Val, SymTableError>(e) }),
        },
{ unimplemented!() }
#[verifier::external_body]
pub fn search_lookup_func(tables: &Vec<SymTable>, rev: bool, name: &VariableName) -> (r: Option<Result<Arc<FunctionData>, SymTableError>>)
    ensures
        match r {
            None => nowhere(views(tables@), *name),
            Some(x) => exists|i: int| #[trigger] hit(views(tables@), rev, *name, i) && x == table_lookup_func(views(tables@)[i], *name),
        },
{ unimplemented!() }
