// model for ExecStmt::visit_assignment (C03 / C14)
//@item src/frontend/ast.rs | enum | BinaryOperator
//@derive Clone, Copy
//@end
//@item src/frontend/ast.rs | struct | ExpressionList
//@end
//@item src/frontend/ast.rs | enum | AssignmentRHS
//@end
//@item src/frontend/ast.rs | struct | Assignment
//@end
impl ExpressionList {
//@fn src/frontend/ast.rs | impl ExpressionList | has_multiple
//@spec
    ensures r == (self.rest@.len() > 0)
//@end
}
#[verifier::external_body] pub fn exec_error_list_invalid() -> (r: ExecError) ensures r == sp_list_invalid() { unimplemented!() }
pub uninterp spec fn sp_list_invalid() -> ExecError;        // ExecError::NonCompoundAssignmentExpressionListInvalid
pub struct AEvent;
impl AEvent {
    pub uninterp spec fn read(d: AssignmentLHS, r: Result<Val, RuntimeError>) -> Event;
    pub uninterp spec fn fold(op: BinaryOperator, first: Val, l: ExpressionList, r: Result<Val, RuntimeError>) -> Event;
}
impl ExecStmt {
    /// `self.producer().visit_assignment_lhs(dest)?.0`: the current value of the destination (a read)
    #[verifier::external_body]
    pub fn read_lhs(&mut self, d: &AssignmentLHS) -> (r: Result<Val, RuntimeError>)
        ensures final(self).control_flow_state == old(self).control_flow_state, final(self).return_val == old(self).return_val,
            final(self).trace@ == old(self).trace@.push(AEvent::read(*d, r)),
    { unimplemented!() }
    /// `binary_operator_fold(op, first, <the expressions of l, each evaluated lazily in order>, self)`
    /// (binary_operator_fold::op: unit fold; one / two operands on the binary: Kani fold_scalar)
    #[verifier::external_body]
    pub fn fold_list(&mut self, op: BinaryOperator, first: Val, l: &ExpressionList) -> (r: Result<Val, RuntimeError>)
        ensures final(self).control_flow_state == old(self).control_flow_state, final(self).return_val == old(self).return_val,
            final(self).trace@ == old(self).trace@.push(AEvent::fold(op, first, *l, r)),
    { unimplemented!() }
}
pub open spec fn assign_tail(dest: AssignmentLHS, v: Val, e: Event, r: Result<(), RuntimeError>) -> bool {
    match e { Event::Assign(d, w) => d == dest && w == v && r is Ok, Event::AssignErr(d, x) => d == dest && r == Err::<(), RuntimeError>(x), _ => false }
}
pub open spec fn assignment_protocol(a: Assignment, old: Seq<Event>, new: Seq<Event>, r: Result<(), RuntimeError>) -> bool {
    let o = old.len() as int;
    let l = a.value->ExpressionList_0;
    extends(old, new) && match a.operator {
        Some(op) => new.len() >= o + 1 && exists|rv: Result<Val, RuntimeError>| #[trigger] AEvent::read(a.dest, rv) == new[o] && match rv {
            Err(x) => new.len() == o + 1 && r == Err::<(), RuntimeError>(x),
            Ok(cur) => new.len() >= o + 2 && exists|fv: Result<Val, RuntimeError>| #[trigger] AEvent::fold(op, cur, l, fv) == new[o + 1] && match fv {
                Err(x) => new.len() == o + 2 && r == Err::<(), RuntimeError>(x),
                Ok(v) => new.len() == o + 3 && assign_tail(a.dest, v, new[o + 2], r),
            },
        },
        None => if l.rest@.len() > 0 { new == old && r == Err::<(), RuntimeError>(RuntimeError::ExecError(sp_list_invalid())) }
            else { new.len() >= o + 1 && match new[o] {
                Event::EvalErr(e, x) => e == l.first && new.len() == o + 1 && r == Err::<(), RuntimeError>(x),
                Event::Eval(e, v) => e == l.first && new.len() == o + 2 && assign_tail(a.dest, v, new[o + 1], r),
                _ => false } },
    }
}

#[verifier::external_body] pub struct Identifier { _p: u8 }
//@item src/frontend/ast.rs | struct | Inc
//@end
//@item src/frontend/ast.rs | struct | Dec
//@end
pub struct IEvent;
impl IEvent { pub uninterp spec fn incdec(d: WithRange<Identifier>, amount: int, r: Result<(), RuntimeError>) -> Event; }
impl ExecStmt {
    /// `self.raw_writer(|val| val.inc(amount)).visit_identifier(dest).unwrap().0`: the increment closure (inc_closure in
    /// unit exec_glue) applied to the place the identifier denotes (write path: unit write_val)
    #[verifier::external_body]
    pub fn inc_in_place(&mut self, dest: &WithRange<Identifier>, amount: isize) -> (r: Result<(), RuntimeError>)
        ensures final(self).control_flow_state == old(self).control_flow_state, final(self).return_val == old(self).return_val,
            final(self).trace@ == old(self).trace@.push(IEvent::incdec(*dest, amount as int, r)),
    { unimplemented!() }
}

// model for ExecStmt::visit_poetic_number_assignment / visit_poetic_string_assignment (C11 / C03: the literal's value is
// what the destination receives)
//@item src/frontend/ast.rs | enum | PoeticNumberAssignmentRHS
//@end
//@item src/frontend/ast.rs | struct | PoeticNumberAssignment
//@end
//@item src/frontend/ast.rs | struct | PoeticStringAssignment
//@end
pub struct PEvent;
impl PEvent { pub uninterp spec fn rhs(e: PoeticNumberAssignmentRHS, r: Result<Val, RuntimeError>) -> Event; }
impl ExecStmt {
    /// `self.producer().visit_poetic_number_assignment_rhs(rhs)` (a read; the dispatch to visit_expression /
    /// visit_poetic_number_literal is the default method: unit visit_defaults; the literal's value: unit poetic)
    #[verifier::external_body]
    pub fn eval_poetic_rhs(&mut self, e: &PoeticNumberAssignmentRHS) -> (r: Result<ProduceValOutput, RuntimeError>)
        ensures final(self).control_flow_state == old(self).control_flow_state, final(self).return_val == old(self).return_val,
            final(self).trace@ == old(self).trace@.push(PEvent::rhs(*e, match r { Ok(v) => Ok(v.0), Err(x) => Err(x) })),
    { unimplemented!() }
}
/// `String::clone`
#[verifier::external_body] pub fn string_clone(s: &String) -> (r: String) ensures r@ == s@ { s.clone() }
/// X is <poetic number literal or expression>: the right-hand side is evaluated once; its failure is the statement's
/// failure and nothing is assigned; otherwise exactly that value is assigned to the destination, once
pub open spec fn poetic_number_protocol(a: PoeticNumberAssignment, old: Seq<Event>, new: Seq<Event>, r: Result<(), RuntimeError>) -> bool {
    let o = old.len() as int;
    extends(old, new) && new.len() >= o + 1 && exists|rv: Result<Val, RuntimeError>| #[trigger] PEvent::rhs(a.rhs, rv) == new[o] && match rv {
        Err(x) => new.len() == o + 1 && r == Err::<(), RuntimeError>(x),
        Ok(v) => new.len() == o + 2 && assign_tail(a.dest, v, new[o + 1], r),
    }
}
/// X says <text>: exactly one assignment, of the string value whose characters are the literal's text
pub open spec fn poetic_string_protocol(a: PoeticStringAssignment, old: Seq<Event>, new: Seq<Event>, r: Result<(), RuntimeError>) -> bool {
    let o = old.len() as int;
    extends(old, new) && new.len() == o + 1 && match new[o] {
        Event::Assign(d, w) => d == a.dest && w.v() == SVal::String(a.rhs@) && r is Ok,
        Event::AssignErr(d, x) => d == a.dest && r == Err::<(), RuntimeError>(x),
        _ => false,
    }
}
