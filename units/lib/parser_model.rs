// ===================================================================================================
// Model for the parser units (C13 / C01 / C02).  The token stream (`CommentSkippingLexer`, a lazy iterator
// over the source) is abstract: its state is the sequence `rem()` of tokens it has still to deliver, the
// line its underlying lexer stands on, and a ghost history `hist()` of the abstract sub-parser calls made so
// far (only abstract sub-parsers write it).  `Parser` itself, the error types and every function under
// contract are extracted from src/frontend/parser.rs.
// ===================================================================================================
//@item src/frontend/source_range.rs | struct | SourceLocation
//@derive Clone, Copy
//@end
//@item src/frontend/source_range.rs | struct | SourceRange
//@derive Clone, Copy
//@rw \bstart: ==> pub start:
//@rw \bend: ==> pub end:
//@end
//@item src/frontend/lexer.rs | struct | ErrorMessage
//@derive Clone, Copy
//@end
//@item src/frontend/lexer.rs | enum | TokenType
//@derive Clone, Copy
//@end
//@item src/frontend/lexer.rs | struct | Token
//@derive Clone, Copy
//@end
//@item src/frontend/parser.rs | enum | ParseErrorCode
//@end
//@item src/frontend/parser.rs | enum | ParseErrorLocation
//@end
//@item src/frontend/parser.rs | struct | ParseError
//@end
//@item src/frontend/parser.rs | struct | Parser
//@rw \blexer: ==> pub lexer:
//@rw \bparsing_list: ==> pub parsing_list:
//@end
impl<'a> ParseError<'a> {
    /// derive_more::Constructor
    pub fn new(code: ParseErrorCode<'a>, loc: ParseErrorLocation<'a>) -> (r: Self) ensures r.code == code, r.loc == loc
    { ParseError { code, loc } }
}

/// derived `PartialEq` on TokenType is structural except on `Number(f64)` (NaN); no call site under contract
/// compares Number tokens, so equality of those is left uninterpreted rather than assumed structural
pub uninterp spec fn number_tt_eq(a: TokenType<'_>, b: TokenType<'_>) -> bool;
pub open spec fn tt_eq(a: TokenType<'_>, b: TokenType<'_>) -> bool {
    if a is Number && b is Number { number_tt_eq(a, b) } else { a == b }
}
/// `a == b` on TokenType (derived PartialEq)
#[verifier::external_body] pub fn tt_eq_exec(a: TokenType<'_>, b: TokenType<'_>) -> (r: bool) ensures r == tt_eq(a, b) { unimplemented!() }

/// `trait MatchesToken` of parser.rs with its meaning as a spec function; the two impls used by the functions
/// under contract are stated, not proved (`==` / `contains` on TokenType)
pub trait MatchesToken {
    spec fn ms(&self, t: Token<'_>) -> bool;
    fn matches_token(&self, token: &Token) -> (r: bool) ensures r == self.ms(*token);
}
impl<'a> MatchesToken for TokenType<'a> {
    open spec fn ms(&self, t: Token<'_>) -> bool { tt_eq(*self, t.id) }
    #[verifier::external_body] fn matches_token(&self, token: &Token) -> (r: bool) { unimplemented!() }
}
impl<'a> MatchesToken for &[TokenType<'a>] {
    open spec fn ms(&self, t: Token<'_>) -> bool { seq_has(self@, t.id) }
    #[verifier::external_body] fn matches_token(&self, token: &Token) -> (r: bool) { unimplemented!() }
}

/// `s.contains(x)`, written out for the first positions so that membership in a literal token list needs no
/// quantifier instantiation (the lists in parser.rs have at most 5 elements)
pub open spec fn seq_has(s: Seq<TokenType<'_>>, x: TokenType<'_>) -> bool {
    (s.len() > 0 && tt_eq(s[0], x)) || (s.len() > 1 && tt_eq(s[1], x)) || (s.len() > 2 && tt_eq(s[2], x)) || (s.len() > 3 && tt_eq(s[3], x))
    || (s.len() > 4 && tt_eq(s[4], x)) || (s.len() > 5 && tt_eq(s[5], x))
    || (exists|i: int| 6 <= i < s.len() && tt_eq(#[trigger] s[i], x))
}
/// one call of an abstract sub-parser: the stream it started on, the stream it left, what it returned
pub struct Call<'a> { pub kind: K, pub at: Seq<Token<'a>>, pub rest: Seq<Token<'a>>, pub res: Result<Out, ParseError<'a>> }

/// the lexer behind the comment-skipping stream (only its position matters here)
#[verifier::external_body] pub struct LexerPos<'a> { _p: &'a u8 }
impl<'a> LexerPos<'a> {
    pub uninterp spec fn line(&self) -> u32;
    pub uninterp spec fn loc(&self) -> SourceLocation;
    #[verifier::external_body] pub fn current_line(&self) -> (r: u32) ensures r == self.line() { unimplemented!() }
    #[verifier::external_body] pub fn current_loc(&self) -> (r: SourceLocation) ensures r == self.loc() { unimplemented!() }
}
#[verifier::external_body] pub struct CommentSkippingLexer<'a> { _p: &'a u8 }
impl<'a> CommentSkippingLexer<'a> {
    pub uninterp spec fn rem(&self) -> Seq<Token<'a>>;
    pub uninterp spec fn pos(&self) -> LexerPos<'a>;
    pub uninterp spec fn hist(&self) -> Seq<Call<'a>>;
    /// #[derive(Clone)]
    #[verifier::external_body] pub fn clone(&self) -> (r: Self) ensures r.rem() == self.rem(), r.hist() == self.hist() { unimplemented!() }
    /// Iterator::next: deliver the next token
    #[verifier::external_body] pub fn next(&mut self) -> (r: Option<Token<'a>>)
        ensures final(self).hist() == old(self).hist(),
            old(self).rem().len() == 0 ==> r is None && final(self).rem() == old(self).rem(),
            old(self).rem().len() > 0 ==> r == Some(old(self).rem()[0]) && final(self).rem() == old(self).rem().skip(1),
    { unimplemented!() }
    #[verifier::external_body] pub fn underlying(&self) -> (r: &LexerPos<'a>) ensures *r == self.pos() { unimplemented!() }
}

impl<'a> Parser<'a> {
    pub open spec fn rem(&self) -> Seq<Token<'a>> { self.lexer.rem() }
    pub open spec fn hist(&self) -> Seq<Call<'a>> { self.lexer.hist() }
    pub open spec fn cur(&self) -> Option<Token<'a>> { first(self.lexer.rem()) }
    /// the error `new_parse_error(code)` builds in this state: located at the current token, or — at the end of
    /// the input — at the line the lexer stands on
    pub open spec fn perr(&self, code: ParseErrorCode<'a>) -> ParseError<'a> {
        ParseError { code, loc: match self.cur() { Some(t) => ParseErrorLocation::Token(t), None => ParseErrorLocation::Line(self.lexer.pos().line()) } }
    }
    /// `match_until_next(token)` (itertools take_while_ref): skips every token up to the next `token`, which becomes current
    #[verifier::external_body]
    pub fn match_until_next(&mut self, token: TokenType) -> (r: Option<Token<'a>>)
        ensures r == final(self).cur(), final(self).hist() == old(self).hist(), final(self).parsing_list == old(self).parsing_list,
            exists|k: int| 0 <= k <= old(self).rem().len() && final(self).rem() == #[trigger] old(self).rem().skip(k)
                && (k < old(self).rem().len() ==> tt_eq(old(self).rem()[k].id, token))
                && forall|j: int| 0 <= j < k ==> !tt_eq((#[trigger] old(self).rem()[j]).id, token),
    { unimplemented!() }
    /// consumed nothing, called no sub-parser
    pub open spec fn same(&self, o: &Self) -> bool { self.lexer == o.lexer && self.parsing_list == o.parsing_list }
    /// consumed exactly n tokens, called no sub-parser
    pub open spec fn ate(&self, o: &Self, n: int) -> bool { self.lexer.rem() == o.lexer.rem().skip(n) && self.lexer.hist() == o.lexer.hist() && self.parsing_list == o.parsing_list }
}
pub open spec fn first<'a>(s: Seq<Token<'a>>) -> Option<Token<'a>> { if s.len() > 0 { Some(s[0]) } else { None } }
pub open spec fn is_suffix<'a>(a: Seq<Token<'a>>, b: Seq<Token<'a>>) -> bool { exists|k: int| 0 <= k <= b.len() && a == #[trigger] b.skip(k) }

// ---- end of statement:  [, or .]?  then a newline or the end of the input
pub open spec fn is_sep(t: Token<'_>) -> bool { t.id is Comma || t.id is Dot }
pub open spec fn skip_sep<'a>(s: Seq<Token<'a>>) -> Seq<Token<'a>> { if s.len() > 0 && is_sep(s[0]) { s.skip(1) } else { s } }
pub open spec fn eol_ok(s: Seq<Token<'_>>) -> bool { skip_sep(s).len() == 0 || skip_sep(s)[0].id is Newline }
pub open spec fn eol_rest<'a>(s: Seq<Token<'a>>) -> Seq<Token<'a>> { if skip_sep(s).len() == 0 { skip_sep(s) } else { skip_sep(s).skip(1) } }
/// where a block may end: end of input, an `else` (left for the enclosing `if`), or a blank line
pub open spec fn stops_block(t: Option<Token<'_>>) -> bool { match t { None => true, Some(t) => t.id is Else || t.id is Newline } }

pub open spec fn eol_err<'a>(s: Seq<Token<'a>>) -> ParseError<'a> {
    ParseError { code: ParseErrorCode::ExpectedToken(TokenType::Newline), loc: ParseErrorLocation::Token(skip_sep(s)[0]) }
}
/// `<[T]>::to_owned`
#[verifier::external_body] pub fn slice_to_owned<'a>(s: &[TokenType<'a>]) -> (r: Vec<TokenType<'a>>) ensures r@ == s@ { unimplemented!() }
pub assume_specification<T, P: FnOnce(&T) -> bool>[Option::<T>::filter](o: Option<T>, p: P) -> (r: Option<T>)
    requires o is Some ==> p.requires((&o->Some_0,)),
    ensures o is None ==> r is None, o is Some ==> exists|b: bool| p.ensures((&o->Some_0,), b) && r == (if b { o } else { None::<T> });
pub assume_specification<T, const N: usize> [<[T; N] as std::convert::AsRef<[T]>>::as_ref] (a: &[T; N]) -> (r: &[T])
    ensures r@ == a@;

pub assume_specification<T, E>[Option::<Result<T, E>>::transpose](o: Option<Result<T, E>>) -> (r: Result<Option<T>, E>)
    ensures r == (match o { None => Ok::<Option<T>, E>(None), Some(Ok(x)) => Ok::<Option<T>, E>(Some(x)), Some(Err(e)) => Err::<Option<T>, E>(e) });
