// ===================================================================================================
// Model for the visitor-runner unit (C16).  Children are opaque; every callback the runner can make is an
// abstract method that logs (node, error-or-none) to a ghost trace and, on success, returns an output
// whose abstract content is the one-element list [node]; `combine` concatenates, `leaf` is empty.
// One traversal method is then correct iff  walk(expected children, ...)  holds.
// ===================================================================================================
#[verifier::external_body] pub struct Expression { _p: u8 }
#[verifier::external_body] pub struct PrimaryExpression { _p: u8 }
#[verifier::external_body] pub struct AssignmentLHS { _p: u8 }
#[verifier::external_body] pub struct AssignmentRHS { _p: u8 }
#[verifier::external_body] pub struct PoeticNumberAssignmentRHS { _p: u8 }
#[verifier::external_body] pub struct ArrayPushRHS { _p: u8 }
#[verifier::external_body] pub struct ArrayPopExpr { _p: u8 }
#[verifier::external_body] pub struct Block { _p: u8 }
#[verifier::external_body] pub struct Identifier { _p: u8 }
#[verifier::external_body] pub struct VariableName { _p: u8 }
#[verifier::external_body] pub struct FunctionCall { _p: u8 }
#[verifier::external_body] pub struct SourceRange { _p: u8 }
#[verifier::external_body] pub struct SourceLocation { _p: u8 }
#[verifier::external_body] pub struct VErr { _p: u8 }         // T::Error
pub struct WithRange<T>(pub T, pub SourceRange);
impl WithRange<VariableName> {
    #[verifier::external_body] pub fn as_ref(&self) -> (r: WithRange<&VariableName>) ensures *r.0 == self.0 { unimplemented!() }
}
//@item src/frontend/ast.rs | enum | BinaryOperator
//@derive Clone, Copy
//@end
//@item src/frontend/ast.rs | enum | MutationOperator
//@derive Clone, Copy
//@end
//@item src/frontend/ast.rs | enum | RoundingDirection
//@derive Clone, Copy
//@end
//@item src/frontend/ast.rs | struct | Assignment
//@end
//@item src/frontend/ast.rs | struct | PoeticNumberAssignment
//@end
//@item src/frontend/ast.rs | struct | PoeticStringAssignment
//@end
//@item src/frontend/ast.rs | struct | If
//@end
//@item src/frontend/ast.rs | struct | While
//@end
//@item src/frontend/ast.rs | struct | Until
//@end
//@item src/frontend/ast.rs | struct | Inc
//@end
//@item src/frontend/ast.rs | struct | Dec
//@end
//@item src/frontend/ast.rs | enum | InputDest
//@end
//@item src/frontend/ast.rs | struct | Input
//@end
//@item src/frontend/ast.rs | struct | Output
//@end
//@item src/frontend/ast.rs | struct | Mutation
//@end
//@item src/frontend/ast.rs | struct | Rounding
//@end
//@item src/frontend/ast.rs | struct | ArrayPush
//@end
//@item src/frontend/ast.rs | struct | ArrayPop
//@end
//@item src/frontend/ast.rs | struct | Return
//@end
//@item src/frontend/ast.rs | struct | FunctionData
//@end
//@item src/frontend/ast.rs | struct | Function
//@end
impl InputDest {
//@fn src/frontend/ast.rs | impl InputDest | opt
//@rw Some\(&x\) ==> Some(x)
//@spec
    ensures r == (match *self { InputDest::Some(x) => Some(&x), InputDest::None(_) => None::<&AssignmentLHS> })
//@end
}

pub enum Node {
    Expr(Expression), Primary(PrimaryExpression), Lhs(AssignmentLHS), Rhs(AssignmentRHS), PoeticRhs(PoeticNumberAssignmentRHS),
    PushRhs(ArrayPushRHS), PopExpr(ArrayPopExpr), Blk(Block), Ident(WithRange<Identifier>), Name(VariableName), BinOp(BinaryOperator),
    Call(FunctionCall), FnData(FunctionData),
}
/// T::Output: abstract content = the nodes whose results were combined into it, in combination order
#[verifier::external_body] pub struct Out { _p: u8 }
impl Out {
    pub uninterp spec fn view(self) -> Seq<Node>;
    /// Combine::combine
    #[verifier::external_body] pub fn combine(self, o: Out) -> (r: Out) ensures r@ == self@ + o@ { unimplemented!() }
}
/// visit::leaf
#[verifier::external_body] pub fn leaf<X>(_x: X) -> (r: Result<Out, VErr>) ensures r is Ok && r->Ok_0@ == Seq::<Node>::empty() { unimplemented!() }

pub struct Runner { pub trace: Ghost<Seq<(Node, Option<VErr>)>> }
pub open spec fn logged(old: Seq<(Node, Option<VErr>)>, new: Seq<(Node, Option<VErr>)>, n: Node, r: Result<Out, VErr>) -> bool {
    new == old.push((n, match r { Ok(_) => None, Err(e) => Some(e) })) && (r is Ok ==> r->Ok_0@ == seq![n])
}
macro_rules! callback {
    ($name:ident, $ty:ty, $node:expr) => {
        verus! {
        impl Runner {
            #[verifier::external_body]
            pub fn $name(&mut self, x: $ty) -> (r: Result<Out, VErr>)
                ensures logged(old(self).trace@, final(self).trace@, $node(x), r)
            { unimplemented!() }
        }
        }
    };
}
pub open spec fn n_expr(x: &Expression) -> Node { Node::Expr(*x) }
pub open spec fn n_primary(x: &PrimaryExpression) -> Node { Node::Primary(*x) }
pub open spec fn n_lhs(x: &AssignmentLHS) -> Node { Node::Lhs(*x) }
pub open spec fn n_rhs(x: &AssignmentRHS) -> Node { Node::Rhs(*x) }
pub open spec fn n_prhs(x: &PoeticNumberAssignmentRHS) -> Node { Node::PoeticRhs(*x) }
pub open spec fn n_pushrhs(x: &ArrayPushRHS) -> Node { Node::PushRhs(*x) }
pub open spec fn n_popexpr(x: &ArrayPopExpr) -> Node { Node::PopExpr(*x) }
pub open spec fn n_block(x: &Block) -> Node { Node::Blk(*x) }
pub open spec fn n_ident(x: &WithRange<Identifier>) -> Node { Node::Ident(*x) }
pub open spec fn n_name(x: WithRange<&VariableName>) -> Node { Node::Name(*x.0) }
pub open spec fn n_binop(x: BinaryOperator) -> Node { Node::BinOp(x) }
pub open spec fn n_call(x: &FunctionCall) -> Node { Node::Call(*x) }
pub open spec fn n_fndata(x: &FunctionData) -> Node { Node::FnData(*x) }
} // verus!
callback!(visit_expression, &Expression, n_expr);
callback!(visit_primary_expression, &PrimaryExpression, n_primary);
callback!(visit_assignment_lhs, &AssignmentLHS, n_lhs);
callback!(visit_assignment_rhs, &AssignmentRHS, n_rhs);
callback!(visit_poetic_number_assignment_rhs, &PoeticNumberAssignmentRHS, n_prhs);
callback!(visit_array_push_rhs, &ArrayPushRHS, n_pushrhs);
callback!(visit_array_pop_expr, &ArrayPopExpr, n_popexpr);
callback!(visit_block, &Block, n_block);
callback!(visit_identifier, &WithRange<Identifier>, n_ident);
callback!(visit_variable_name, WithRange<&VariableName>, n_name);
callback!(visit_binary_operator, BinaryOperator, n_binop);
callback!(visit_function_call, &FunctionCall, n_call);
verus! {
impl Runner {
    // VisitProgram defaults of the runner that are leaves
    pub fn visit_mutation_operator(&mut self, o: MutationOperator) -> (r: Result<Out, VErr>)
        ensures final(self).trace@ == old(self).trace@, r is Ok && r->Ok_0@ == Seq::<Node>::empty() { leaf(o) }
    pub fn visit_rounding_direction(&mut self, o: RoundingDirection) -> (r: Result<Out, VErr>)
        ensures final(self).trace@ == old(self).trace@, r is Ok && r->Ok_0@ == Seq::<Node>::empty() { leaf(o) }
}

// ---- C16: one traversal method visits exactly `expected`, in order, folds left to right, stops at the first error
pub open spec fn entries(ns: Seq<Node>) -> Seq<(Node, Option<VErr>)> { ns.map_values(|n: Node| (n, None::<VErr>)) }
pub open spec fn walk(expected: Seq<Node>, old: Seq<(Node, Option<VErr>)>, new: Seq<(Node, Option<VErr>)>, r: Result<Out, VErr>) -> bool {
    match r {
        // every child called back exactly once, in order, none failed; results folded left to right from the default
        Ok(out) => new =~= old + entries(expected) && out@ =~= expected,
        // the first k-1 children succeeded, child k failed with e, and nothing was called after it
        Err(e) => {
            let k = new.len() - old.len();
            1 <= k <= expected.len() && new =~= old + entries(expected.subrange(0, k - 1)).push((expected[k - 1], Some(e)))
        },
    }
}
pub open spec fn opt_node<X>(o: Option<X>, f: spec_fn(X) -> Node) -> Seq<Node> {
    match o { Some(x) => seq![f(x)], None => Seq::<Node>::empty() }
}

pub open spec fn names_of(ps: Seq<WithRange<VariableName>>) -> Seq<Node> { ps.map_values(|p: WithRange<VariableName>| Node::Name(p.0)) }
impl Runner {
    /// `combine_all(params.iter().map(|p| self.visit_variable_name(p.as_ref())))`  (rule 5): combine_all = try_fold
    /// from the default with combine (Kani: c16 list harnesses): every element in order, stop at the first error
    #[verifier::external_body]
    pub fn visit_all_names(&mut self, ps: &Vec<WithRange<VariableName>>) -> (r: Result<Out, VErr>)
        ensures ps@.len() > 0 ==> walk(names_of(ps@), old(self).trace@, final(self).trace@, r),
            ps@.len() == 0 ==> final(self).trace@ == old(self).trace@ && r is Ok && r->Ok_0@ == Seq::<Node>::empty(),
    { unimplemented!() }
}
