// ---------------------------------------------------------------------------------------------------
// C03 / C14, property level: what one operator application yields and whether the right operand is
// evaluated.  `b` is the (possibly failing) evaluation of the right operand.
pub open spec fn ord_in(o: Option<Ordering>, x: Ordering, y: Ordering) -> bool { o == Some(x) || o == Some(y) }

pub open spec fn spec_rel(operator: BinaryOperator, o: Option<Ordering>) -> bool {
    match operator {
        BinaryOperator::Greater => o == Some(Ordering::Greater),
        BinaryOperator::GreaterEq => ord_in(o, Ordering::Greater, Ordering::Equal),
        BinaryOperator::Less => o == Some(Ordering::Less),
        BinaryOperator::LessEq => ord_in(o, Ordering::Less, Ordering::Equal),
        _ => false,
    }
}
/// is the right operand evaluated?
pub open spec fn evaluates_rhs(operator: BinaryOperator, a: SVal) -> bool {
    match operator {
        BinaryOperator::And => truthy(a),
        BinaryOperator::Or | BinaryOperator::Nor => !truthy(a),
        _ => true,
    }
}
pub open spec fn op_result(operator: BinaryOperator, a: Val, bv: Val, r: Result<Val, RuntimeError>) -> bool {
    match operator {
        BinaryOperator::Plus => r is Ok && r->Ok_0.v() == spec_plus(a.v(), bv.v()),
        BinaryOperator::Minus => r is Ok && r->Ok_0.v() == spec_arith('-', a.v(), bv.v()),
        BinaryOperator::Multiply => r is Ok && r->Ok_0.v() == spec_multiply(a.v(), bv.v()),
        BinaryOperator::Divide => r is Ok && r->Ok_0.v() == spec_arith('/', a.v(), bv.v()),
        BinaryOperator::And => r == Ok::<Val, RuntimeError>(Val::Boolean(truthy(a.v()) && truthy(bv.v()))),
        BinaryOperator::Or => r == Ok::<Val, RuntimeError>(Val::Boolean(truthy(a.v()) || truthy(bv.v()))),
        BinaryOperator::Nor => r == Ok::<Val, RuntimeError>(Val::Boolean(!(truthy(a.v()) || truthy(bv.v())))),
        BinaryOperator::Eq => r == Ok::<Val, RuntimeError>(Val::Boolean(spec_equals(a.v(), bv.v()))),
        BinaryOperator::NotEq => r == Ok::<Val, RuntimeError>(Val::Boolean(!spec_equals(a.v(), bv.v()))),
        BinaryOperator::Greater | BinaryOperator::GreaterEq | BinaryOperator::Less | BinaryOperator::LessEq =>
            match spec_compare(a.v(), bv.v()) {
                Ok(o) => r == Ok::<Val, RuntimeError>(Val::Boolean(spec_rel(operator, o))),
                Err(()) => r == Err::<Val, RuntimeError>(RuntimeError::ValError(ValError::InvalidComparison(a, bv))),
            },
    }
}
pub open spec fn spec_op(operator: BinaryOperator, a: Val, b: Result<Val, RuntimeError>, calls: nat, r: Result<Val, RuntimeError>) -> bool {
    if !evaluates_rhs(operator, a.v()) {
        // short-circuit: operand not evaluated, result decided by the left side
        calls == 0 && r == Ok::<Val, RuntimeError>(Val::Boolean(match operator { BinaryOperator::Or => true, _ => false }))
    } else {
        calls == 1 && match b {
            Err(e) => r == Err::<Val, RuntimeError>(e),       // first error wins, unchanged
            Ok(bv) => op_result(operator, a, bv, r),
        }
    }
}

