// model for the boring-assignment unit
//@item src/analysis/tools.rs | struct | NumericConstant
//@derive Clone, Copy
//@end
//@item src/linter/passes/boring_assignment.rs | enum | PoeticNumberLiteralTemplateItem
//@end
//@item src/linter/passes/boring_assignment.rs | struct | PoeticNumberLiteralTemplate
//@rw PoeticNumberLiteralTemplate\(Vec ==> PoeticNumberLiteralTemplate(pub Vec
//@end
use std::cmp::Ordering;
pub uninterp spec fn sp_trunc(a: f64) -> f64;
pub uninterp spec fn sp_ceil(a: f64) -> f64;
pub uninterp spec fn sp_floor(a: f64) -> f64;
pub uninterp spec fn sp_round(a: f64) -> f64;
pub uninterp spec fn sp_feq(a: f64, b: f64) -> bool;
pub uninterp spec fn sp_fcmp(a: f64, b: f64) -> Option<Ordering>;
pub uninterp spec fn sp_f64_usize(a: f64) -> usize;
pub uninterp spec fn sp_f64_i64(a: f64) -> i64;
pub uninterp spec fn sp_render(x: f64) -> Seq<char>;           // f64 Display
//@include lib/f64_methods.rs
pub open spec fn sp_finite(x: f64) -> bool { sp_fbool(1, x) }
pub open spec fn sp_sign_positive(x: f64) -> bool { sp_fbool(4, x) }
/// `val.to_string()`; ASSUMED: a finite, sign-positive f64 renders with decimal digits and at most one '.' only
/// (Rust's Display for f64 never uses exponent notation)
#[verifier::external_body]
pub fn render(val: NumericConstant) -> (r: String)
    ensures r@ == sp_render(val.value),
        sp_finite(val.value) && sp_sign_positive(val.value) ==> forall|i: int| 0 <= i < r@.len() ==> (#[trigger] r@[i] == '.' || ('0' <= r@[i] && r@[i] <= '9')),
{ unimplemented!() }
pub open spec fn item_of(c: char) -> PoeticNumberLiteralTemplateItem {
    if c == '.' { PoeticNumberLiteralTemplateItem::Dot } else { PoeticNumberLiteralTemplateItem::Word { len: (c as usize - '0' as usize) as usize } }
}
/// `s.chars().map(f).collect()`
#[verifier::external_body]
pub fn map_chars<F: Fn(char) -> PoeticNumberLiteralTemplateItem>(s: String, f: F) -> (r: Vec<PoeticNumberLiteralTemplateItem>)
    requires forall|i: int| 0 <= i < s@.len() ==> f.requires((#[trigger] s@[i],)),
    ensures r@.len() == s@.len(), forall|i: int| 0 <= i < s@.len() ==> f.ensures((s@[i],), #[trigger] r@[i]),
{ unimplemented!() }

pub open spec fn word_bytes(len: usize, first: bool) -> Seq<u8> {
    (if first { Seq::<u8>::empty() } else { seq![32u8] }) + Seq::new((if len == 0 { 10 } else { len as nat }), |i: int| 42u8)
}
/// the bytes as_text produces for a prefix of the items
pub open spec fn text_bytes(items: Seq<PoeticNumberLiteralTemplateItem>) -> Seq<u8>
    decreases items.len()
{
    if items.len() == 0 { Seq::<u8>::empty() } else {
        let init = text_bytes(items.drop_last());
        match items.last() {
            PoeticNumberLiteralTemplateItem::Word { len } => init + word_bytes(len, items.len() == 1),
            PoeticNumberLiteralTemplateItem::Dot => init.push(46u8),
        }
    }
}
/// `bytes.extend(repeat_n(b, n))`
#[verifier::external_body]
pub fn push_n(v: &mut Vec<u8>, b: u8, n: usize) ensures final(v)@ == old(v)@ + Seq::new(n as nat, |i: int| b) { unimplemented!() }
/// `String::from_utf8_unchecked(bytes)`: sound only for valid UTF-8 — required: all bytes ASCII
#[verifier::external_body]
pub fn string_from_ascii(bytes: Vec<u8>) -> (r: String)
    requires forall|k: int| 0 <= k < bytes@.len() ==> #[trigger] bytes@[k] < 128,
    ensures r@.len() == bytes@.len(), forall|k: int| 0 <= k < r@.len() ==> #[trigger] r@[k] as int == bytes@[k] as int,
{ unimplemented!() }

#[verifier::external_body] pub struct Var { _p: u8 }     // `&impl Render`
impl Var {
    pub uninterp spec fn spec_render(&self) -> Seq<char>;
    #[verifier::external_body] pub fn render(&self) -> (r: String) ensures r@ == self.spec_render() { unimplemented!() }
}
pub open spec fn text_chars(items: Seq<PoeticNumberLiteralTemplateItem>) -> Seq<char> { text_bytes(items).map_values(|b: u8| b as char) }
/// `format!("{} is {}", a, b)`
#[verifier::external_body] pub fn fmt_is(a: String, b: String) -> (r: String) ensures r@ == a@ + " is "@ + b@ { unimplemented!() }
#[verifier::external_body] pub fn fmt_rock(a: String, b: String) -> (r: String) { unimplemented!() }

// ---- report condition model
#[verifier::external_body] pub struct AssignmentLHS { _p: u8 }
#[verifier::external_body] pub struct AssignmentRHS { _p: u8 }
#[verifier::external_body] pub struct Expression { _p: u8 }
#[verifier::external_body] pub struct PoeticNumberLiteral { _p: u8 }
#[verifier::external_body] pub struct StringConstant { _p: u8 }
#[verifier::external_body] pub struct BinaryOperator { _p: u8 }
pub enum CFE { NoType, UnknownValue, WrongType, NeedMoreInfo, PossibleValueIgnored }     // ConstantFoldingError (tools.rs)
//@item src/frontend/ast.rs | struct | Assignment
//@end
//@item src/frontend/ast.rs | enum | PoeticNumberAssignmentRHS
//@end
//@item src/frontend/ast.rs | struct | PoeticNumberAssignment
//@end
pub struct BoringAssignmentPass;
pub enum Report { Nothing, Numeric(AssignmentLHS, NumericConstant, u32), Str(AssignmentLHS, StringConstant, u32), Push(PrimaryExpression, NumericConstant, u32) }
#[verifier::external_body] pub struct DiagsB { _p: u8 }      // DiagsBuilder
impl DiagsB {
    pub uninterp spec fn what(self) -> Report;
    #[verifier::external_body] pub fn empty() -> (r: DiagsB) ensures r.what() == Report::Nothing { unimplemented!() }
}
pub uninterp spec fn sp_fold_num_rhs(r: AssignmentRHS) -> Result<NumericConstant, CFE>;
pub uninterp spec fn sp_fold_str_rhs(r: AssignmentRHS) -> Option<StringConstant>;
pub uninterp spec fn sp_fold_num_expr(r: Expression) -> Result<NumericConstant, CFE>;
pub uninterp spec fn sp_fold_str_expr(r: Expression) -> Option<StringConstant>;
#[verifier::external_body] pub fn fold_numeric_rhs(r: &AssignmentRHS) -> (o: Result<NumericConstant, CFE>) ensures o == sp_fold_num_rhs(*r) { unimplemented!() }
#[verifier::external_body] pub fn fold_string_rhs(r: &AssignmentRHS) -> (o: Option<StringConstant>) ensures o == sp_fold_str_rhs(*r) { unimplemented!() }
#[verifier::external_body] pub fn fold_numeric_expr(r: &Expression) -> (o: Result<NumericConstant, CFE>) ensures o == sp_fold_num_expr(*r) { unimplemented!() }
#[verifier::external_body] pub fn fold_string_expr(r: &Expression) -> (o: Option<StringConstant>) ensures o == sp_fold_str_expr(*r) { unimplemented!() }
#[verifier::external_body] pub fn build_numeric_diag(var: &AssignmentLHS, val: NumericConstant, line: u32) -> (r: DiagsB) ensures r.what() == Report::Numeric(*var, val, line) { unimplemented!() }
#[verifier::external_body] pub fn maybe_build_string_diag(var: &AssignmentLHS, val: Option<StringConstant>, line: u32) -> (r: DiagsB)
    ensures r.what() == (match val { Some(sv) => Report::Str(*var, sv, line), None => Report::Nothing }) { unimplemented!() }
impl Assignment { pub uninterp spec fn spec_line(&self) -> u32;
    #[verifier::external_body] pub fn line(&self) -> (r: u32) ensures r == self.spec_line() { unimplemented!() } }
impl Expression { pub uninterp spec fn spec_line(&self) -> u32;
    #[verifier::external_body] pub fn line(&self) -> (r: u32) ensures r == self.spec_line() { unimplemented!() } }

// ---- rock <array> with <constant>
#[verifier::external_body] pub struct PrimaryExpression { _p: u8 }
#[verifier::external_body] pub struct ExpressionList { _p: u8 }
//@item src/frontend/ast.rs | enum | ArrayPushRHS
//@end
//@item src/frontend/ast.rs | struct | ArrayPush
//@end
pub uninterp spec fn sp_fold_num_list(l: ExpressionList) -> Result<NumericConstant, CFE>;
/// `NumericConstantFolder.visit_expression_list(el)` (unit folder)
#[verifier::external_body] pub fn fold_numeric_list(l: &ExpressionList) -> (o: Result<NumericConstant, CFE>) ensures o == sp_fold_num_list(*l) { unimplemented!() }
#[verifier::external_body] pub fn maybe_build_numeric_array_push_diag(var: &PrimaryExpression, val: Option<NumericConstant>, line: u32) -> (r: DiagsB)
    ensures r.what() == (match val { Some(x) => Report::Push(*var, x, line), None => Report::Nothing }) { unimplemented!() }
impl ArrayPush { pub uninterp spec fn spec_line(&self) -> u32;
    #[verifier::external_body] pub fn line(&self) -> (r: u32) ensures r == self.spec_line() { unimplemented!() } }
