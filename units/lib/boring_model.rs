// model for the boring-assignment unit
//@item src/analysis/tools.rs | struct | NumericConstant
//@derive Clone, Copy
//@end
//@item src/linter/passes/boring_assignment.rs | enum | PoeticNumberLiteralTemplateItem
//@end
//@item src/linter/passes/boring_assignment.rs | struct | PoeticNumberLiteralTemplate
//@rw PoeticNumberLiteralTemplate\(Vec ==> PoeticNumberLiteralTemplate(pub Vec
//@end
use std::cmp::Ordering;
pub uninterp spec fn sp_trunc(a: f64) -> f64;
pub uninterp spec fn sp_ceil(a: f64) -> f64;
pub uninterp spec fn sp_floor(a: f64) -> f64;
pub uninterp spec fn sp_round(a: f64) -> f64;
pub uninterp spec fn sp_feq(a: f64, b: f64) -> bool;
pub uninterp spec fn sp_fcmp(a: f64, b: f64) -> Option<Ordering>;
pub uninterp spec fn sp_f64_usize(a: f64) -> usize;
pub uninterp spec fn sp_f64_i64(a: f64) -> i64;
pub uninterp spec fn sp_render(x: f64) -> Seq<char>;           // f64 Display
//@include lib/f64_methods.rs
pub open spec fn sp_finite(x: f64) -> bool { sp_fbool(1, x) }
pub open spec fn sp_sign_positive(x: f64) -> bool { sp_fbool(4, x) }
/// `val.to_string()`; ASSUMED: a finite, sign-positive f64 renders with decimal digits and at most one '.' only
/// (Rust's Display for f64 never uses exponent notation)
#[verifier::external_body]
pub fn render(val: NumericConstant) -> (r: String)
    ensures r@ == sp_render(val.value),
        sp_finite(val.value) && sp_sign_positive(val.value) ==> forall|i: int| 0 <= i < r@.len() ==> (#[trigger] r@[i] == '.' || ('0' <= r@[i] && r@[i] <= '9')),
{ unimplemented!() }
pub open spec fn item_of(c: char) -> PoeticNumberLiteralTemplateItem {
    if c == '.' { PoeticNumberLiteralTemplateItem::Dot } else { PoeticNumberLiteralTemplateItem::Word { len: (c as usize - '0' as usize) as usize } }
}
/// `s.chars().map(f).collect()`
#[verifier::external_body]
pub fn map_chars<F: Fn(char) -> PoeticNumberLiteralTemplateItem>(s: String, f: F) -> (r: Vec<PoeticNumberLiteralTemplateItem>)
    requires forall|i: int| 0 <= i < s@.len() ==> f.requires((#[trigger] s@[i],)),
    ensures r@.len() == s@.len(), forall|i: int| 0 <= i < s@.len() ==> f.ensures((s@[i],), #[trigger] r@[i]),
{ unimplemented!() }

pub open spec fn word_bytes(len: usize, first: bool) -> Seq<u8> {
    (if first { Seq::<u8>::empty() } else { seq![32u8] }) + Seq::new((if len == 0 { 10 } else { len as nat }), |i: int| 42u8)
}
/// the bytes as_text produces for a prefix of the items
pub open spec fn text_bytes(items: Seq<PoeticNumberLiteralTemplateItem>) -> Seq<u8>
    decreases items.len()
{
    if items.len() == 0 { Seq::<u8>::empty() } else {
        let init = text_bytes(items.drop_last());
        match items.last() {
            PoeticNumberLiteralTemplateItem::Word { len } => init + word_bytes(len, items.len() == 1),
            PoeticNumberLiteralTemplateItem::Dot => init.push(46u8),
        }
    }
}
/// `bytes.extend(repeat_n(b, n))`
#[verifier::external_body]
pub fn push_n(v: &mut Vec<u8>, b: u8, n: usize) ensures final(v)@ == old(v)@ + Seq::new(n as nat, |i: int| b) { unimplemented!() }
/// `String::from_utf8_unchecked(bytes)`: sound only for valid UTF-8 — required: all bytes ASCII
#[verifier::external_body]
pub fn string_from_ascii(bytes: Vec<u8>) -> (r: String)
    requires forall|k: int| 0 <= k < bytes@.len() ==> #[trigger] bytes@[k] < 128,
    ensures r@.len() == bytes@.len(), forall|k: int| 0 <= k < r@.len() ==> #[trigger] r@[k] as int == bytes@[k] as int,
{ unimplemented!() }

#[verifier::external_body] pub struct Var { _p: u8 }     // `&impl Render`
impl Var {
    pub uninterp spec fn spec_render(&self) -> Seq<char>;
    #[verifier::external_body] pub fn render(&self) -> (r: String) ensures r@ == self.spec_render() { unimplemented!() }
}
pub open spec fn text_chars(items: Seq<PoeticNumberLiteralTemplateItem>) -> Seq<char> { text_bytes(items).map_values(|b: u8| b as char) }
/// `format!("{} is {}", a, b)`
#[verifier::external_body] pub fn fmt_is(a: String, b: String) -> (r: String) ensures r@ == a@ + " is "@ + b@ { unimplemented!() }
#[verifier::external_body] pub fn fmt_rock(a: String, b: String) -> (r: String) { unimplemented!() }
