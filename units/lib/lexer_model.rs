// ===================================================================================================
// Model for the lexer-primitives unit (C12 / C01).  The source buffer is an abstract `&str`; what matters to
// these functions is which byte offsets are character boundaries.  `substr` (debug: checked slice, release:
// get_unchecked) is abstract with the precondition "a valid slice" — discharging it at every call site IS the
// C01 obligation "never reads out of bounds, in debug and in release builds".
// ===================================================================================================
//@item src/frontend/source_range.rs | struct | SourceLocation
//@derive Clone, Copy
//@end
//@item src/frontend/source_range.rs | struct | SourceRange
//@rw \bstart: ==> pub start:
//@rw \bend: ==> pub end:
//@end
//@item src/frontend/lexer.rs | struct | ErrorMessage
//@derive Clone, Copy
//@end
//@item src/frontend/lexer.rs | enum | TokenType
//@derive Clone, Copy
//@end
//@item src/frontend/lexer.rs | struct | Token
//@end
//@item src/frontend/lexer.rs | struct | LexResult
//@rw \btoken: ==> pub token:
//@rw \bend: ==> pub end:
//@rw \bnewlines: ==> pub newlines:
//@rw \bnew_line_start: ==> pub new_line_start:
//@end
impl<'a> Token<'a> {
    /// derive_more::Constructor
    pub fn new(id: TokenType<'a>, spelling: &'a str, range: SourceRange) -> (r: Self) ensures r.id == id, r.spelling == spelling, r.range == range
    { Token { id, spelling, range } }
}
impl SourceLocation {
    /// derive_more::From<(u32, u32)>
    pub fn from_pair(p: (u32, u32)) -> (r: Self) ensures r.line == p.0, r.column == p.1 { SourceLocation { line: p.0, column: p.1 } }
    /// SourceLocation::to — contract proved on the compiled code by Kani (c12__source_range::new_is_normalised)
    #[verifier::external_body]
    pub fn to(self, other: Self) -> (r: SourceRange)
        ensures loc_le(self, other) ==> r.start == self && r.end == other, !loc_le(self, other) ==> r.start == other && r.end == self
    { unimplemented!() }
}
pub open spec fn loc_le(a: SourceLocation, b: SourceLocation) -> bool { a.line < b.line || (a.line == b.line && a.column <= b.column) }

pub uninterp spec fn boundary(buf: &str, i: int) -> bool;                 // str::is_char_boundary
pub uninterp spec fn sp_substr(buf: &str, a: int, b: int) -> &str;       // &buf[a..b]
pub uninterp spec fn sp_len(buf: &str) -> int;                            // buf.len() in bytes
pub open spec fn slice_ok(buf: &str, a: int, b: int) -> bool { 0 <= a <= b <= sp_len(buf) && boundary(buf, a) && boundary(buf, b) }
/// the KEYWORDS table: what is stored under exactly this key (all keys are lower-case)
pub uninterp spec fn sp_table(key: &str) -> Option<TokenType<'static>>;
/// str::to_lowercase
pub uninterp spec fn sp_lower(word: &str) -> &str;
/// keyword recognition: the table entry of the LOWER-CASED word
pub open spec fn sp_keyword(word: &str) -> Option<TokenType<'static>> { sp_table(sp_lower(word)) }
/// `KEYWORDS` (lazy_static HashMap<&'static str, TokenType<'static>>)
#[verifier::external_body] pub struct KeywordTable { _p: u8 }
#[verifier::external_body] pub fn keywords() -> (r: &'static KeywordTable) { unimplemented!() }
impl KeywordTable {
    /// HashMap::get(key).copied(); no entry maps to TokenType::Newline (by inspection of the table)
    #[verifier::external_body]
    pub fn get_copied(&self, key: &str) -> (r: Option<TokenType<'static>>) ensures r == sp_table(key), !(r matches Some(t) && t is Newline) { unimplemented!() }
}
/// `word.to_lowercase()` followed by `.as_str()`
#[verifier::external_body] pub fn lowercase_of(word: &str) -> (r: String) { unimplemented!() }
#[verifier::external_body] pub fn lowered<'x>(word: &'x str) -> (r: &'x str) ensures r == sp_lower(word) { unimplemented!() }
pub uninterp spec fn sp_starts_with(hay: &str, needle: &str) -> bool;

/// `Lexer<'a>`: `char_indices` is represented by the ghost byte offset it stands at
pub struct Lexer<'a> {
    pub buf: &'a str,
    pub cursor: Ghost<int>,
    pub staged: Option<Token<'a>>,
    pub line: u32,
    pub line_start: u32,
}
impl<'a> Lexer<'a> {
    /// sources are smaller than 4 GiB (stated input assumption: columns are u32) and the lexer never stands before
    /// the start of the current line
    pub open spec fn wf(&self) -> bool {
        sp_len(self.buf) <= u32::MAX && self.line_start <= self.cursor@ <= sp_len(self.buf) && boundary(self.buf, self.cursor@)
        && boundary(self.buf, sp_len(self.buf))      // the end of a str is a char boundary
    }
    /// `self.substr(a..b)`
    #[verifier::external_body]
    pub fn substr_range(&self, a: usize, b: usize) -> (r: &'a str)
        requires slice_ok(self.buf, a as int, b as int),
        ensures r == sp_substr(self.buf, a as int, b as int), sp_len(r) == b - a, a < b ==> sp_first_char(r) == sp_char_at(self.buf, a as int)
    { unimplemented!() }
    /// `self.substr(a..)`
    #[verifier::external_body]
    pub fn substr_from(&self, a: usize) -> (r: &'a str)
        requires slice_ok(self.buf, a as int, sp_len(self.buf)),
        ensures r == sp_substr(self.buf, a as int, sp_len(self.buf))
    { unimplemented!() }
    /// `self.buf.get(a..b).is_some()`
    #[verifier::external_body]
    pub fn is_slice(&self, a: usize, b: usize) -> (r: bool) ensures r == slice_ok(self.buf, a as int, b as int) { unimplemented!() }
    /// `find_next_index(|c| c.is_whitespace() || is_ignorable_punctuation(c))`: a character boundary at or after the cursor
    #[verifier::external_body]
    pub fn find_next_word_end(&self) -> (r: usize)
        requires self.wf(),
        ensures self.cursor@ <= r <= sp_len(self.buf), boundary(self.buf, r as int)
    { unimplemented!() }
}
/// no KEYWORDS entry maps to TokenType::Newline (by inspection of the table)
pub open spec fn no_newline_keyword(word: &str) -> bool { !(sp_keyword(word) matches Some(t) && t is Newline) }
#[verifier::external_body]
pub fn str_len(s: &str) -> (r: usize) ensures r == sp_len(s) { unimplemented!() }
/// `hay.strip_prefix(needle)` is Some exactly when hay starts with needle; an ASCII needle found at a boundary ends at a boundary
impl<'a> Lexer<'a> {
    #[verifier::external_body]
    pub fn strip_prefix_is_some(&self, hay: &str, Ghost(a): Ghost<int>, needle: &str) -> (r: bool)
        requires hay == sp_substr(self.buf, a, sp_len(self.buf)), slice_ok(self.buf, a, sp_len(self.buf)),
        ensures r == sp_starts_with(hay, needle),
            r && sp_ascii(needle) ==> a + sp_len(needle) <= sp_len(self.buf) && boundary(self.buf, a + sp_len(needle)),
            r && sp_len(needle) > 0 ==> sp_char_at(self.buf, a) == sp_first_char(needle),
    { unimplemented!() }
}
pub uninterp spec fn sp_ascii(s: &str) -> bool;
pub uninterp spec fn sp_first_char(s: &str) -> char;
pub uninterp spec fn sp_no_newline(s: &str) -> bool;

pub uninterp spec fn sp_word_chars(s: &str) -> bool;     // every char alphabetic or an apostrophe
#[verifier::external_body] pub fn all_alphabetic_or_apostrophe(s: &str) -> (r: bool) ensures r == sp_word_chars(s) { unimplemented!() }

/// what scan_apostrophe_suffix needs (it is scan_for_text twice): a valid position at or after the line start in force
pub open spec fn suffix_scan_ok(lx: Lexer<'_>, result: LexResult<'_>) -> bool {
    sp_len(lx.buf) <= u32::MAX && slice_ok(lx.buf, result.end as int, sp_len(lx.buf))
    && (match result.new_line_start { Some(n) => n, None => lx.line_start }) <= result.end
}
impl<'a> Lexer<'a> {
    /// scan_for_text(start, "'s", ..).or_else(|| scan_for_text(start, "'re", ..)) — contract of scan_for_text (proved above)
    #[verifier::external_body]
    pub fn scan_apostrophe_suffix(&self, start: usize) -> (r: Option<LexResult<'a>>)
        requires sp_len(self.buf) <= u32::MAX, slice_ok(self.buf, start as int, sp_len(self.buf)), self.line_start <= start,
        ensures match r {
            Some(l) => l.token.range.start == (SourceLocation { line: self.line, column: (start - self.line_start) as u32 })
                && l.end >= start && l.end <= sp_len(self.buf) && boundary(self.buf, l.end as int)
                && l.newlines == 0 && l.new_line_start is None && (l.token.id is ApostropheS || l.token.id is ApostropheRE),
            None => true,
        }
    { unimplemented!() }
}

/// number of '\n' bytes in buf[a..b) and the offset just after the last of them (meaningful when there is one)
pub uninterp spec fn sp_count_nl(buf: &str, a: int, b: int) -> int;
pub uninterp spec fn sp_after_last_nl(buf: &str, a: int, b: int) -> int;
/// offset of the first occurrence of the character `c` at or after `a`, if any
pub uninterp spec fn sp_find_char(buf: &str, a: int, c: char) -> Option<int>;
impl<'a> Lexer<'a> {
    /// the lexer has counted at most one line per byte it has passed (line numbers start at 1)
    pub open spec fn line_ok(&self) -> bool { self.line as int <= self.cursor@ + 1 && sp_len(self.buf) < u32::MAX }
    /// `self.char_indices.clone().inspect(|&(i, c)| if c == '\n' { newlines += 1; new_line_start = Some((i + 1) as u32) })
    ///      .find(|&(_, c)| c == close_char).map(|(i, _)| i)`:
    /// the offset of the first `close_char` at or after the cursor; on the way (up to and including the character found, or
    /// to the end of the buffer) every newline is counted and the offset after the last one recorded
    #[verifier::external_body]
    pub fn find_close(&self, close_char: char, newlines: &mut u32, new_line_start: &mut Option<u32>) -> (r: Option<usize>)
        requires self.wf(), *old(newlines) == 0, *old(new_line_start) is None,
        ensures ({ let e = match r { Some(c) => c + 1, None => sp_len(self.buf) };
            (r matches Some(c) ==> self.cursor@ <= c < sp_len(self.buf) && boundary(self.buf, c as int) && sp_find_char(self.buf, self.cursor@, close_char) == Some(c as int)
                                   && ((close_char as u32) < 128 ==> boundary(self.buf, c + 1)))
            && (r is None ==> sp_find_char(self.buf, self.cursor@, close_char) is None)
            && *final(newlines) == sp_count_nl(self.buf, self.cursor@, e) && 0 <= sp_count_nl(self.buf, self.cursor@, e) <= e - self.cursor@
            && (sp_count_nl(self.buf, self.cursor@, e) == 0 ==> *final(new_line_start) is None)
            && (sp_count_nl(self.buf, self.cursor@, e) > 0 ==> *final(new_line_start) == Some(sp_after_last_nl(self.buf, self.cursor@, e) as u32)
                    && self.cursor@ < sp_after_last_nl(self.buf, self.cursor@, e) <= e) }),
    { unimplemented!() }
    /// `self.buf.len()`
    #[verifier::external_body] pub fn buf_len(&self) -> (r: usize) ensures r == sp_len(self.buf) { unimplemented!() }
}
// ---- str::strip_suffix / trim_end_matches (assumed: their documented meaning, and that what they return is a prefix of the
// word, hence ends on a character boundary of the buffer the word was cut from)
pub uninterp spec fn sp_ends_with(word: &str, lit: &str) -> bool;
pub uninterp spec fn sp_trimmed_len(word: &str, c: char) -> int;      // length of word.trim_end_matches(c)
/// `word` is buf[a..b)
pub open spec fn is_sub(word: &str, buf: &str, a: int, b: int) -> bool { slice_ok(buf, a, b) && word == sp_substr(buf, a, b) && sp_len(word) == b - a }
#[verifier::external_body]
pub fn strip_suffix<'x>(word: &'x str, lit: &str, Ghost(buf): Ghost<&str>, Ghost(a): Ghost<int>, Ghost(b): Ghost<int>) -> (r: Option<&'x str>)
    requires is_sub(word, buf, a, b),
    ensures r is Some == sp_ends_with(word, lit),
        r matches Some(s) ==> sp_len(lit) <= b - a && is_sub(s, buf, a, b - sp_len(lit))
            && (sp_len(lit) > 0 && sp_first_char(word) != sp_first_char(lit) ==> sp_len(s) > 0),
{ unimplemented!() }
#[verifier::external_body]
pub fn trim_end_matches<'x>(word: &'x str, c: char, Ghost(buf): Ghost<&str>, Ghost(a): Ghost<int>, Ghost(b): Ghost<int>) -> (r: &'x str)
    requires is_sub(word, buf, a, b),
    ensures 0 <= sp_trimmed_len(word, c) <= b - a, is_sub(r, buf, a, a + sp_trimmed_len(word, c)),
        b - a > 0 && sp_first_char(word) != c ==> sp_trimmed_len(word, c) > 0,
{ unimplemented!() }
/// the six spellings of the suffixes: ASCII, lengths 2 and 3, all starting with an apostrophe
pub uninterp spec fn sp_lit(k: int) -> &'static str;
#[verifier::external_body] pub fn suffix_lit(k: u8) -> (r: &'static str)
    requires k < 6,
    ensures r == sp_lit(k as int), sp_len(r) == (if k < 2 { 2int } else { 3int }), sp_first_char(r) == '\''
{ ["'s", "'S", "'re", "'RE", "'Re", "'rE"][k as usize] }
pub uninterp spec fn sp_char_at(buf: &str, i: int) -> char;
pub uninterp spec fn sp_char_len(c: char) -> int;       // len_utf8: 1 for ASCII, at most 4
impl<'a> Lexer<'a> {
    /// `find_word_start(&mut self.char_indices)`: skips ignorable whitespace (not newlines), delivers the next character
    /// with its offset and steps over it; `'n'` is delivered at its first character
    #[verifier::external_body]
    pub fn find_word_start(&mut self) -> (r: Option<(usize, char)>)
        requires old(self).wf(),
        ensures final(self).buf == old(self).buf, final(self).line == old(self).line, final(self).line_start == old(self).line_start,
            final(self).staged == old(self).staged,
            match r {
                Some((start, c)) => old(self).cursor@ <= start < sp_len(old(self).buf) && boundary(old(self).buf, start as int) && c == sp_char_at(old(self).buf, start as int)
                    && final(self).cursor@ == start + sp_char_len(c) && final(self).cursor@ <= sp_len(old(self).buf) && boundary(old(self).buf, final(self).cursor@)
                    && 1 <= sp_char_len(c) <= 4 && ((c as u32) < 128 ==> sp_char_len(c) == 1),
                None => final(self).cursor@ == sp_len(old(self).buf),
            },
    { unimplemented!() }
    /// `self.char_indices.clone().next().map(|(_, c)| c)`
    #[verifier::external_body]
    pub fn next_char(&self) -> (r: Option<char>)
        requires self.wf(),
        ensures match r {
            Some(c) => self.cursor@ < sp_len(self.buf) && c == sp_char_at(self.buf, self.cursor@) && self.cursor@ + sp_char_len(c) <= sp_len(self.buf)
                && boundary(self.buf, self.cursor@ + sp_char_len(c)) && ((c as u32) < 128 ==> sp_char_len(c) == 1),
            None => self.cursor@ == sp_len(self.buf),
        },
    { unimplemented!() }
    /// advance_to: moves the cursor FORWARD to idx (take_while_ref(i != idx): an idx behind the cursor would run to the end)
    #[verifier::external_body]
    pub fn advance_to(&mut self, idx: usize)
        requires old(self).cursor@ <= idx <= sp_len(old(self).buf), boundary(old(self).buf, idx as int),
        ensures final(self).cursor@ == idx, final(self).buf == old(self).buf, final(self).line == old(self).line, final(self).line_start == old(self).line_start,
            final(self).staged == old(self).staged,
    { unimplemented!() }
}
#[verifier::external_body] pub fn is_ignorable_punctuation(c: char) -> (r: bool) { unimplemented!() }
#[verifier::external_body] pub fn char_is_numeric(c: char) -> (r: bool) { unimplemented!() }
/// char::is_alphabetic (an apostrophe is not alphabetic)
#[verifier::external_body] pub fn char_is_alphabetic(c: char) -> (r: bool) ensures r ==> c != '\'' { unimplemented!() }
pub uninterp spec fn lit_s_spec() -> &'static str;
pub uninterp spec fn lit_re_spec() -> &'static str;
/// the literals "'s" and "'re": ASCII, no newline
#[verifier::external_body] pub fn lit_s() -> (r: &'static str) ensures r == lit_s_spec(), sp_ascii(r), sp_no_newline(r) { "'s" }
#[verifier::external_body] pub fn lit_re() -> (r: &'static str) ensures r == lit_re_spec(), sp_ascii(r), sp_no_newline(r) { "'re" }
pub uninterp spec fn lit_n_spec() -> &'static str;
/// the literal "'n'": three ASCII bytes, no newline
#[verifier::external_body] pub fn lit_n() -> (r: &'static str) ensures r == lit_n_spec(), sp_ascii(r), sp_no_newline(r), sp_len(r) == 3, sp_first_char(r) == '\'' { "'n'" }
pub open spec fn suffix_ok(lx: Lexer<'_>, start: int, r: Option<LexResult<'_>>) -> bool {
    match r {
        Some(l) => (l.token.id is ApostropheS || l.token.id is ApostropheRE)
            && l.token.range.start == (SourceLocation { line: lx.line, column: (start - lx.line_start) as u32 })
            && l.end >= start && l.end <= sp_len(lx.buf) && boundary(lx.buf, l.end as int) && l.newlines == 0 && l.new_line_start is None,
        None => true,
    }
}
pub assume_specification<T, P: FnOnce(&T) -> bool>[Option::<T>::filter](o: Option<T>, p: P) -> (r: Option<T>)
    requires o is Some ==> p.requires((&o->Some_0,)),
    ensures o is None ==> r is None, o is Some ==> exists|b: bool| p.ensures((&o->Some_0,), b) && r == (if b { o } else { None::<T> });
pub assume_specification<T, F: FnOnce() -> Option<T>>[Option::<T>::or_else](o: Option<T>, f: F) -> (r: Option<T>)
    requires o is None ==> f.requires(()),
    ensures o is Some ==> r == o, o is None ==> f.ensures((), r);
impl<'a> Lexer<'a> {
    /// find_next_index(|c| !(c.is_ascii_alphanumeric() || c == '.')): a boundary at or after the cursor
    #[verifier::external_body]
    pub fn find_number_end(&self) -> (r: usize)
        requires self.wf(),
        ensures self.cursor@ <= r <= sp_len(self.buf), boundary(self.buf, r as int), r == sp_number_end(*self)
    { unimplemented!() }
}
/// end of the maximal run of ASCII alphanumerics and '.' starting at the cursor (uninterpreted)
pub uninterp spec fn sp_number_end(lx: Lexer<'_>) -> int;
#[verifier::external_body] pub struct ParseFloatErr { _p: u8 }
#[verifier::external_body] pub fn parse_f64_res(s: &str) -> (r: Result<f64, ParseFloatErr>) { unimplemented!() }
