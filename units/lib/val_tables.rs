// ===================================================================================================
// Reference tables for C03 / C14 (written from the Rockstar reference as pinned by the upstream
// test-suite, one cell per kind pair — NOT in the shape of the code).  All tables are over the abstract
// value view `SVal` (strings are character sequences; an array is its mathematical content).
// ===================================================================================================

pub enum SVal { Undefined, Null, Boolean(bool), Number(f64), String(Seq<char>), Array(Array) }

impl Val {
    pub open spec fn v(self) -> SVal {
        match self {
            Val::Undefined => SVal::Undefined,
            Val::Null => SVal::Null,
            Val::Boolean(b) => SVal::Boolean(b),
            Val::Number(n) => SVal::Number(n),
            Val::String(s) => SVal::String(s@),
            Val::Array(a) => SVal::Array(*a),
        }
    }
}

pub open spec fn truthy(v: SVal) -> bool {
    match v {
        SVal::Undefined => false,
        SVal::Null => false,
        SVal::Boolean(b) => b,
        SVal::Number(n) => !sp_feq(n, 0.0f64),   // NaN is truthy; -0.0 is falsy
        SVal::String(_) => true,
        SVal::Array(_) => true,
    }
}

/// an array used as a scalar counts as its sequence length
pub open spec fn arr_len_f(a: Array) -> f64 { sp_usize_f64(a.arr@.len() as int) }
pub open spec fn decayed(v: SVal) -> SVal {
    match v { SVal::Array(a) => SVal::Number(arr_len_f(a)), _ => v }
}

pub open spec fn bool_text(b: bool) -> Seq<char> { if b { "true"@ } else { "false"@ } }

/// canonical rendering (say)
pub open spec fn spec_output(v: SVal) -> Seq<char> {
    match v {
        SVal::Undefined => "mysterious"@,
        SVal::Null => "null"@,
        SVal::Boolean(b) => bool_text(b),
        SVal::Number(n) => sp_render(n),
        SVal::String(s) => s,
        SVal::Array(a) => sp_render(arr_len_f(a)),
    }
}

// ---------------------------------------------------------------------------------------------------
// operator helper: generic float binary operator named by its symbol
pub open spec fn sp_binop(c: char, a: f64, b: f64) -> f64 {
    if c == '+' { sp_add(a, b) } else if c == '-' { sp_sub(a, b) } else if c == '*' { sp_mul(a, b) } else { sp_div(a, b) }
}
#[verifier::external_body]
pub fn f64_binop(c: char, a: f64, b: f64) -> (r: f64)
    ensures r == sp_binop(c, a, b)
{ unimplemented!() }

pub uninterp spec fn sp_str_cmp(a: Seq<char>, b: Seq<char>) -> Ordering;   // `String::cmp` (byte-wise lexicographic)
pub uninterp spec fn sp_str_repeat(a: Seq<char>, n: usize) -> Seq<char>;   // n copies of a
#[verifier::external_body]
pub fn str_concat(a: &Rc<String>, b: &Rc<String>) -> (r: String) ensures r@ == a@ + b@ { unimplemented!() }
#[verifier::external_body]
pub fn str_repeat(a: &Rc<String>, n: usize) -> (r: String) ensures r@ == sp_str_repeat(a@, n) { unimplemented!() }
#[verifier::external_body]
pub fn str_cmp(a: &Rc<String>, b: &Rc<String>) -> (r: Ordering) ensures r == sp_str_cmp(a@, b@) { unimplemented!() }

pub trait IntoVal: Sized { spec fn text(self) -> Seq<char>; fn into_val(self) -> (r: Val) ensures r.v() == SVal::String(self.text()); }
impl IntoVal for &str { open spec fn text(self) -> Seq<char> { self@ }
    #[verifier::external_body] fn into_val(self) -> (r: Val) { unimplemented!() } }

// ---------------------------------------------------------------------------------------------------
// comparison coercion.  Intermediate contract of `cmp_coerced` (derived from the code; it carries the
// two property-level tables below): the pair both sides are converted to before comparing.
// None = "not comparable" (string that does not parse, against a number).
pub open spec fn spec_cc(a: SVal, b: SVal) -> Option<(SVal, SVal)> {
    match (a, b) {
        // same kind: untouched
        (SVal::Undefined, SVal::Undefined) | (SVal::Null, SVal::Null) | (SVal::Boolean(_), SVal::Boolean(_))
        | (SVal::Number(_), SVal::Number(_)) | (SVal::String(_), SVal::String(_)) | (SVal::Array(_), SVal::Array(_)) => Some((a, b)),
        // mysterious
        (SVal::Undefined, SVal::Null) | (SVal::Null, SVal::Undefined) => Some((SVal::Null, SVal::Null)),
        (SVal::Undefined, _) => Some((a, b)),
        (SVal::Boolean(_), SVal::Undefined) | (SVal::Number(_), SVal::Undefined) | (SVal::String(_), SVal::Undefined) => Some((a, b)),
        // arrays count as their length
        (SVal::Array(x), SVal::Null) => Some((SVal::Number(arr_len_f(x)), SVal::Number(0.0f64))),
        (SVal::Null, SVal::Array(y)) => Some((SVal::Number(0.0f64), SVal::Number(arr_len_f(y)))),
        (SVal::Array(x), _) => Some((SVal::Number(arr_len_f(x)), b)),
        (SVal::Boolean(_), SVal::Array(y)) | (SVal::Number(_), SVal::Array(y)) => Some((a, SVal::Number(arr_len_f(y)))),
        (SVal::String(_), SVal::Array(_)) => Some((a, b)),
        // null takes the other side's zero
        (SVal::Boolean(_), SVal::Null) => Some((a, SVal::Boolean(false))),
        (SVal::Null, SVal::Boolean(_)) => Some((SVal::Boolean(false), b)),
        (SVal::Number(_), SVal::Null) => Some((a, SVal::Number(0.0f64))),
        (SVal::Null, SVal::Number(_)) => Some((SVal::Number(0.0f64), b)),
        (SVal::String(_), SVal::Null) => Some((a, SVal::String(Seq::<char>::empty()))),
        (SVal::Null, SVal::String(_)) => Some((SVal::String(Seq::<char>::empty()), b)),
        // number vs boolean: the number's truthiness
        (SVal::Number(_), SVal::Boolean(_)) => Some((SVal::Boolean(truthy(a)), b)),
        (SVal::Boolean(_), SVal::Number(_)) => Some((a, SVal::Boolean(truthy(b)))),
        // string vs number: parse; vs boolean: non-empty
        (SVal::String(s), SVal::Number(_)) => match sp_parse(s) { Some(n) => Some((SVal::Number(n), b)), None => None },
        (SVal::Number(_), SVal::String(s)) => match sp_parse(s) { Some(n) => Some((a, SVal::Number(n))), None => None },
        (SVal::String(s), SVal::Boolean(_)) => Some((SVal::Boolean(s.len() != 0), b)),
        (SVal::Boolean(_), SVal::String(s)) => Some((a, SVal::Boolean(s.len() != 0))),
    }
}
pub open spec fn cc_view(r: Option<(Cow<'_, Val>, Cow<'_, Val>)>) -> Option<(SVal, SVal)> {
    match r { None => None, Some(p) => Some((p.0.view().v(), p.1.view().v())) }
}

/// the relation computed by `#[derive(PartialEq)] enum Val` (trusted reading of the derive; numbers: IEEE ==)
pub uninterp spec fn sp_array_eq(a: Array, b: Array) -> bool;   // derived PartialEq of `Array` (element-wise)
pub open spec fn sval_eq(a: SVal, b: SVal) -> bool {
    match (a, b) {
        (SVal::Undefined, SVal::Undefined) => true,
        (SVal::Null, SVal::Null) => true,
        (SVal::Boolean(x), SVal::Boolean(y)) => x == y,
        (SVal::Number(x), SVal::Number(y)) => sp_feq(x, y),
        (SVal::String(x), SVal::String(y)) => x == y,
        (SVal::Array(x), SVal::Array(y)) => sp_array_eq(x, y),
        _ => false,
    }
}

// ---------------------------------------------------------------------------------------------------
// C03 property-level table: `a is b`  (36 cells)
pub open spec fn spec_equals(a: SVal, b: SVal) -> bool {
    match (a, b) {
        (SVal::Undefined, SVal::Undefined) => true,
        (SVal::Undefined, SVal::Null) | (SVal::Null, SVal::Undefined) => true,      // upstream equality test
        (SVal::Undefined, _) | (_, SVal::Undefined) => false,
        (SVal::Null, SVal::Null) => true,
        (SVal::Null, SVal::Boolean(y)) => false == y,
        (SVal::Boolean(x), SVal::Null) => x == false,
        (SVal::Null, SVal::Number(y)) => sp_feq(0.0f64, y),
        (SVal::Number(x), SVal::Null) => sp_feq(x, 0.0f64),
        (SVal::Null, SVal::String(t)) => Seq::<char>::empty() =~= t,
        (SVal::String(s), SVal::Null) => s =~= Seq::<char>::empty(),
        (SVal::Null, SVal::Array(y)) => sp_feq(0.0f64, arr_len_f(y)),
        (SVal::Array(x), SVal::Null) => sp_feq(arr_len_f(x), 0.0f64),
        (SVal::Boolean(x), SVal::Boolean(y)) => x == y,
        (SVal::Boolean(x), SVal::Number(_)) => x == truthy(b),
        (SVal::Number(_), SVal::Boolean(y)) => truthy(a) == y,
        (SVal::Boolean(x), SVal::String(t)) => x == (t.len() != 0),
        (SVal::String(s), SVal::Boolean(y)) => (s.len() != 0) == y,
        (SVal::Boolean(_), SVal::Array(_)) | (SVal::Array(_), SVal::Boolean(_)) => false,
        (SVal::Number(x), SVal::Number(y)) => sp_feq(x, y),
        (SVal::Number(x), SVal::String(t)) => match sp_parse(t) { Some(n) => sp_feq(x, n), None => false },
        (SVal::String(s), SVal::Number(y)) => match sp_parse(s) { Some(n) => sp_feq(n, y), None => false },
        (SVal::Number(x), SVal::Array(y)) => sp_feq(x, arr_len_f(y)),
        (SVal::Array(x), SVal::Number(y)) => sp_feq(arr_len_f(x), y),
        (SVal::String(s), SVal::String(t)) => s == t,
        (SVal::String(_), SVal::Array(_)) | (SVal::Array(_), SVal::String(_)) => false,
        (SVal::Array(x), SVal::Array(y)) => sp_array_eq(x, y),
    }
}

// C03 property-level table: ordering.  Err(()) = InvalidComparison runtime error, Ok(None) = unordered.
pub open spec fn spec_compare(a: SVal, b: SVal) -> Result<Option<Ordering>, ()> {
    match (a, b) {
        (SVal::Undefined, SVal::Undefined) | (SVal::Null, SVal::Null)
        | (SVal::Undefined, SVal::Null) | (SVal::Null, SVal::Undefined) => Ok(Some(Ordering::Equal)),
        (SVal::Undefined, _) | (_, SVal::Undefined) => Err(()),
        (SVal::Boolean(_), _) | (_, SVal::Boolean(_)) => Err(()),         // booleans are never ordered
        (SVal::Number(x), SVal::Number(y)) => Ok(sp_fcmp(x, y)),
        (SVal::Null, SVal::Number(y)) => Ok(sp_fcmp(0.0f64, y)),
        (SVal::Number(x), SVal::Null) => Ok(sp_fcmp(x, 0.0f64)),
        (SVal::String(s), SVal::String(t)) => Ok(Some(sp_str_cmp(s, t))),
        (SVal::Null, SVal::String(t)) => Ok(Some(sp_str_cmp(Seq::<char>::empty(), t))),
        (SVal::String(s), SVal::Null) => Ok(Some(sp_str_cmp(s, Seq::<char>::empty()))),
        (SVal::String(s), SVal::Number(y)) => match sp_parse(s) { Some(n) => Ok(sp_fcmp(n, y)), None => Ok(None) },
        (SVal::Number(x), SVal::String(t)) => match sp_parse(t) { Some(n) => Ok(sp_fcmp(x, n)), None => Ok(None) },
        (SVal::Array(x), SVal::Null) => Ok(sp_fcmp(arr_len_f(x), 0.0f64)),
        (SVal::Null, SVal::Array(y)) => Ok(sp_fcmp(0.0f64, arr_len_f(y))),
        (SVal::Array(x), SVal::Number(y)) => Ok(sp_fcmp(arr_len_f(x), y)),
        (SVal::Number(x), SVal::Array(y)) => Ok(sp_fcmp(x, arr_len_f(y))),
        (SVal::Array(_), SVal::Array(_)) => Err(()),
        (SVal::String(_), SVal::Array(_)) | (SVal::Array(_), SVal::String(_)) => Err(()),
    }
}
pub open spec fn compare_matches(r: Result<Option<Ordering>, ValError>, a: Val, b: Val) -> bool {
    match (r, spec_compare(a.v(), b.v())) {
        (Ok(x), Ok(y)) => x == y,
        (Err(ValError::InvalidComparison(x, y)), Err(())) => x == a && y == b,
        _ => false,
    }
}

// ---------------------------------------------------------------------------------------------------
// C03: `+`  — string on either side concatenates the other side's rendering; null is 0 next to a number;
// arrays count as their length; anything else is mysterious.
pub open spec fn plus_text(v: SVal) -> Option<Seq<char>> {
    match v {
        SVal::Undefined => Some("mysterious"@),
        SVal::Null => Some("null"@),
        SVal::Boolean(b) => Some(bool_text(b)),
        SVal::Number(n) => Some(sp_render(n)),
        SVal::String(s) => Some(s),
        SVal::Array(_) => None,
    }
}
pub open spec fn spec_plus(a: SVal, b: SVal) -> SVal {
    match (a, b) {
        (SVal::String(s), SVal::Array(_)) => SVal::Undefined,
        (SVal::Array(_), SVal::String(t)) => SVal::Undefined,
        (SVal::String(s), _) => SVal::String(s + plus_text(b)->Some_0),
        (_, SVal::String(t)) => SVal::String(plus_text(a)->Some_0 + t),
        (SVal::Number(x), SVal::Number(y)) => SVal::Number(sp_add(x, y)),
        (SVal::Null, SVal::Number(y)) => SVal::Number(sp_add(0.0f64, y)),
        (SVal::Number(x), SVal::Null) => SVal::Number(sp_add(x, 0.0f64)),
        (SVal::Array(x), SVal::Array(y)) => SVal::Number(sp_add(arr_len_f(x), arr_len_f(y))),
        (SVal::Array(x), SVal::Number(y)) => SVal::Number(sp_add(arr_len_f(x), y)),
        (SVal::Number(x), SVal::Array(y)) => SVal::Number(sp_add(x, arr_len_f(y))),
        _ => SVal::Undefined,
    }
}

// `-` `/` (and the numeric part of `*`): numbers only; null is 0 next to a number; arrays count as their length
pub open spec fn num_operands(a: SVal, b: SVal) -> Option<(f64, f64)> {
    match (a, b) {
        (SVal::Number(x), SVal::Number(y)) => Some((x, y)),
        (SVal::Null, SVal::Number(y)) => Some((0.0f64, y)),
        (SVal::Number(x), SVal::Null) => Some((x, 0.0f64)),
        (SVal::Array(x), SVal::Array(y)) => Some((arr_len_f(x), arr_len_f(y))),
        (SVal::Array(x), SVal::Number(y)) => Some((arr_len_f(x), y)),
        (SVal::Number(x), SVal::Array(y)) => Some((x, arr_len_f(y))),
        _ => None,
    }
}
pub open spec fn spec_arith(c: char, a: SVal, b: SVal) -> SVal {
    match num_operands(a, b) { Some((x, y)) => SVal::Number(sp_binop(c, x, y)), None => SVal::Undefined }
}
/// `*` additionally repeats a string a non-negative number of times (string on the left)
pub open spec fn ge0(y: f64) -> bool { sp_fcmp(y, 0.0f64) == Some(Ordering::Greater) || sp_fcmp(y, 0.0f64) == Some(Ordering::Equal) }
pub open spec fn spec_multiply(a: SVal, b: SVal) -> SVal {
    match (a, b) {
        (SVal::String(s), SVal::Number(y)) => if ge0(y) { SVal::String(sp_str_repeat(s, sp_f64_usize(y))) } else { SVal::Undefined },
        (SVal::String(s), SVal::Array(y)) => if ge0(arr_len_f(y)) { SVal::String(sp_str_repeat(s, sp_f64_usize(arr_len_f(y)))) } else { SVal::Undefined },
        _ => spec_arith('*', a, b),
    }
}
pub open spec fn spec_negate(r: Result<Val, ValError>, a: Val) -> bool {
    match (a, r) {
        (Val::Number(n), Ok(v)) => v == Val::Number(sp_neg(n)),
        (Val::Number(_), Err(_)) => false,
        (_, Err(ValError::InvalidOperationForType(what, v))) => v == a && what@ == "negate"@,
        _ => false,
    }
}

/// build up / knock down by x: null counts as 0, booleans toggle on odd x, numbers add; other kinds are an
/// error naming the direction and leave the value alone
pub open spec fn spec_inc(old: Val, x: int, new: Val, r: Result<(), ValError>) -> bool {
    match old {
        Val::Null => r is Ok && new == Val::Number(sp_add(0.0f64, sp_usize_f64(x))),
        Val::Boolean(b) => r is Ok && new == Val::Boolean(b != (x % 2 != 0)),
        Val::Number(n) => r is Ok && new == Val::Number(sp_add(n, sp_usize_f64(x))),
        _ => new == old && (r matches Err(ValError::InvalidOperationForType(what, v)) && v == old
                && what@ == (if x >= 0 { "increment"@ } else { "decrement"@ })),
    }
}

// intermediate contracts of plus_coerced / arith_coerced (derived from the code)
pub open spec fn spec_arith_coerced(a: SVal, b: SVal) -> (SVal, SVal) {
    match (a, b) {
        (SVal::Null, SVal::Number(_)) => (SVal::Number(0.0f64), b),
        (SVal::Number(_), SVal::Null) => (a, SVal::Number(0.0f64)),
        (SVal::Array(_), _) | (_, SVal::Array(_)) => (decayed(a), decayed(b)),
        _ => (a, b),
    }
}
pub open spec fn spec_plus_coerced(a: SVal, b: SVal) -> (SVal, SVal) {
    match (a, b) {
        (SVal::String(_), SVal::Array(_)) => (a, decayed(b)),
        (SVal::Array(_), SVal::String(_)) => (decayed(a), b),
        (SVal::String(_), _) => (a, SVal::String(plus_text(b)->Some_0)),
        (_, SVal::String(_)) => (SVal::String(plus_text(a)->Some_0), b),
        _ => spec_arith_coerced(a, b),
    }
}

// ---------------------------------------------------------------------------------------------------
// helpers for `compare`
/// `inner!(e, if Val::Number)` — the macro panics on any other variant, so that is a precondition
pub fn inner_number(v: &Val) -> (r: &f64)
    requires *v is Number
    ensures *r == v->Number_0
{ match v { Val::Number(n) => n, _ => unreached() } }
pub fn inner_string(v: &Val) -> (r: &Rc<String>)
    requires *v is String
    ensures *r == v->String_0
{ match v { Val::String(s) => s, _ => unreached() } }

pub open spec fn cmp_step(y: Option<Result<Ordering, ValError>>, a: Val, b: Val, s: Val, o: Val) -> bool {
    if kind(a) != kind(b) { y == Some(Err::<Ordering, ValError>(ValError::InvalidComparison(s, o))) }
    else {
        match a {
            Val::Undefined | Val::Null => y == Some(Ok::<Ordering, ValError>(Ordering::Equal)),
            Val::Number(n) => y == (match sp_fcmp(n, b->Number_0) { Some(x) => Some(Ok::<Ordering, ValError>(x)), None => None }),
            Val::String(x) => y == Some(Ok::<Ordering, ValError>(sp_str_cmp(x@, b->String_0@))),
            Val::Boolean(_) | Val::Array(_) => y == Some(Err::<Ordering, ValError>(ValError::InvalidComparison(s, o))),
        }
    }
}
pub assume_specification<T, E>[Option::<Result<T, E>>::transpose](o: Option<Result<T, E>>) -> (r: Result<Option<T>, E>)
    ensures r == (match o { None => Ok::<Option<T>, E>(None), Some(Ok(x)) => Ok::<Option<T>, E>(Some(x)), Some(Err(e)) => Err::<Option<T>, E>(e) });
