// ===================================================================================================
// C07 model: in-place mutations of a value.
// ===================================================================================================
/// turn: dir 0 = up (ceil), 1 = down (floor), 2 = round (nearest, half away from zero)
pub open spec fn round_spec(old: Val, new: Val, r: Result<(), ValError>, dir: int) -> bool {
    match old {
        Val::Number(f) => r is Ok && new == Val::Number(if dir == 0 { sp_ceil(f) } else if dir == 1 { sp_floor(f) } else { sp_round(f) }),
        _ => new == old && (r matches Err(ValError::InvalidOperationForType(w, v)) && v == old
                && w@ == (if dir == 0 { "round up"@ } else if dir == 1 { "round down"@ } else { "round nearest"@ })),
    }
}

/// `(cond).then(|| v).ok_or_else(fail)` with `fail` a non-capturing error constructor
pub fn bool_then_ok_or(cond: bool, v: i64, fail: Ghost<ValError>) -> (r: Result<i64, ValError>)
    ensures r == (if cond { Ok::<i64, ValError>(v) } else { Err::<i64, ValError>(fail@) })
{ if cond { Ok(v) } else { Err(mk_err(fail)) } }
#[verifier::external_body] pub fn mk_err(e: Ghost<ValError>) -> (r: ValError) ensures r == e@ { unimplemented!() }

// ---- cut
pub uninterp spec fn sp_split_chars(s: Seq<char>) -> Seq<Seq<char>>;                   // one string per character
pub uninterp spec fn sp_split_at(s: Seq<char>, d: Seq<char>) -> Seq<Seq<char>>;        // `str::split(d)`
pub open spec fn strings_of(q: Seq<Val>) -> Seq<Seq<char>> { q.map_values(|v: Val| match v { Val::String(x) => x@, _ => Seq::<char>::empty() }) }
pub open spec fn all_strings(q: Seq<Val>) -> bool { forall|i: int| 0 <= i < q.len() ==> #[trigger] q[i] is String }
#[verifier::external_body]
pub fn split_chars(s: &Rc<String>) -> (r: VecDeque<Val>) ensures all_strings(r@), strings_of(r@) == sp_split_chars(s@) { unimplemented!() }
#[verifier::external_body]
pub fn split_at(s: &Rc<String>, d: &str) -> (r: VecDeque<Val>) ensures all_strings(r@), strings_of(r@) == sp_split_at(s@, d@) { unimplemented!() }
impl Array {
    #[verifier::external_body]
    pub fn with_arr(arr: VecDeque<Val>) -> (r: Array) ensures r.arr@ == arr@, r.dict@ == Map::<DKey, Val>::empty() { unimplemented!() }
}
/// `&Rc<String>` deref-coerced to `&str`
pub trait AsStr { fn as_str(&self) -> (r: &str) ensures r@ == self.text(); spec fn text(&self) -> Seq<char>; }
impl AsStr for Rc<String> { open spec fn text(&self) -> Seq<char> { self@ }
    #[verifier::external_body] fn as_str(&self) -> (r: &str) { unimplemented!() } }

/// cut: a string becomes the array of its pieces (per character without / with an empty delimiter, else at every
/// occurrence of the delimiter); the empty string becomes the empty array; the delimiter must be a string;
/// any other operand kind is an error; on error the operand is unchanged
pub open spec fn split_ok(s: Seq<char>, dl: Seq<char>, new: Val, r: Result<(), ValError>) -> bool {
    r is Ok && new is Array && new->Array_0.dict@ == Map::<DKey, Val>::empty() && all_strings(new->Array_0.arr@)
    && (if s.len() == 0 { new->Array_0.arr@ =~= Seq::<Val>::empty() }
        else if dl.len() == 0 { strings_of(new->Array_0.arr@) == sp_split_chars(s) }
        else { strings_of(new->Array_0.arr@) == sp_split_at(s, dl) })
}
pub open spec fn split_spec(old: Val, delim: Option<Val>, new: Val, r: Result<(), ValError>) -> bool {
    match old {
        Val::String(s) => match delim {
            None => split_ok(s@, Seq::<char>::empty(), new, r),
            Some(Val::String(d)) => split_ok(s@, d@, new, r),
            Some(d) => new == old && r == Err::<(), ValError>(ValError::InvalidSplitDelimiter(d)),
        },
        // (that the operand itself is left unchanged in this arm is not provable here: Verus 0.2026.09.13 loses the
        //  final value of `self` in a guard-less arm of a `match` whose other arms have guards and assign `*self`
        //  — design-probes/verus/t10_guard_quirk.rs; the scalar kinds are covered by Kani c07__wrong_kind_unchanged)
        _ => (match r { Err(ValError::InvalidOperationForType(w, v)) => v == old && w@ == "split"@, _ => false }),
    }
}

// ---- cast
pub uninterp spec fn sp_i64_u32(i: i64) -> Option<u32>;            // u32::try_from
pub uninterp spec fn sp_char_from_u32(u: u32) -> Option<char>;     // char::from_u32
pub uninterp spec fn sp_from_str_radix(s: Seq<char>, radix: u32) -> Option<i64>;
/// cast: number -> the character with that code point (no parameter allowed; must be an integral, in-range,
/// valid scalar value); string -> number, base 10 via float parsing, or an integer in the given radix
/// (radix must be an integral number in 2..=36 — std's precondition — and the text must parse)
pub open spec fn cast_spec(old: Val, param: Option<Val>, new: Val, r: Result<(), ValError>) -> bool {
    match old {
        Val::Number(n) => match param {
            Some(p) => new == old && r == Err::<(), ValError>(ValError::UnexpectedParameterToNumberToCharacterCast(p)),
            None => {
                let code = (if sp_feq(sp_trunc(n), n) { sp_i64_u32(sp_f64_i64(sp_trunc(n))) } else { None });
                match (match code { Some(u) => sp_char_from_u32(u), None => None }) {
                    Some(c) => r is Ok && new.v() == SVal::String(seq![c]),
                    None => new == old && r == Err::<(), ValError>(ValError::ConvertingNumberToCharacterFailed(n)),
                }
            },
        },
        Val::String(s) => match param {
            None => match sp_parse(s@) {
                Some(x) => r is Ok && new == Val::Number(x),
                None => new == old && (r matches Err(ValError::ParsingStringAsNumberFailed(t)) && t@ == s@),
            },
            Some(Val::Number(p)) => {
                let radix = (if sp_feq(sp_trunc(p), p) { sp_i64_u32(sp_f64_i64(sp_trunc(p))) } else { None });
                match (match radix { Some(rx) if 2 <= rx <= 36 => sp_from_str_radix(s@, rx), _ => None }) {
                    Some(i) => r is Ok && new == Val::Number(sp_usize_f64(i as int)),
                    None => new == old && r == Err::<(), ValError>(ValError::InvalidStringToIntegerRadix(Val::Number(p))),
                }
            },
            Some(p) => new == old && r == Err::<(), ValError>(ValError::InvalidStringToIntegerRadix(p)),
        },
        _ => new == old && (r matches Err(ValError::InvalidOperationForType(w, v)) && v == old && w@ == "cast"@),
    }
}
#[verifier::external_type_specification] #[verifier::external_body] pub struct ExParseFloatError(std::num::ParseFloatError);
#[verifier::external_type_specification] #[verifier::external_body] pub struct ExParseIntError(std::num::ParseIntError);
/// `i64 -> u32` through `TryInto` (std blanket impl)
pub trait ToU32 { fn to_u32(self) -> (r: Result<u32, std::num::TryFromIntError>); }
impl ToU32 for i64 {
    #[verifier::external_body]
    fn to_u32(self) -> (r: Result<u32, std::num::TryFromIntError>)
        ensures match sp_i64_u32(self) { Some(u) => r == Ok::<u32, std::num::TryFromIntError>(u), None => r is Err }
    { unimplemented!() }
}
/// `s.parse::<f64>()`
#[verifier::external_body]
pub fn parse_f64_res(s: &Rc<String>) -> (r: Result<f64, std::num::ParseFloatError>)
    ensures match sp_parse(s@) { Some(x) => r == Ok::<f64, std::num::ParseFloatError>(x), None => r is Err }
{ unimplemented!() }
pub assume_specification[char::from_u32](u: u32) -> (r: Option<char>)
    ensures r == sp_char_from_u32(u);
/// std: "This function panics if radix is not in the range from 2 to 36."
pub assume_specification[i64::from_str_radix](s: &str, radix: u32) -> (r: Result<i64, std::num::ParseIntError>)
    requires 2 <= radix <= 36,
    ensures match sp_from_str_radix(s@, radix) { Some(i) => r == Ok::<i64, std::num::ParseIntError>(i), None => r is Err };

/// the literal `""` (Verus does not know the length of a string literal without `reveal_strlit`)
#[verifier::external_body] pub fn empty_str() -> (r: &'static str) ensures r@ == Seq::<char>::empty() { "" }

// ---- join
/// `Array::val_iter()` (proved in unit val_arrays): the numeric part in order, then the dictionary values in key order —
/// a function of the array's CONTENT (C10)
pub open spec fn sp_vals(a: Array) -> Seq<Val> { a.arr@ + vals_by_key(a.dict@) }
pub uninterp spec fn sp_join(parts: Seq<Seq<char>>, d: Seq<char>) -> Seq<char>;     // Itertools::join
impl Array {
    /// `self.val_iter().collect::<Vec<&Val>>()`
    #[verifier::external_body]
    pub fn val_list(&self) -> (r: Vec<&Val>)
        ensures r@.len() == sp_vals(*self).len(), forall|i: int| 0 <= i < r@.len() ==> *(#[trigger] r@[i]) == sp_vals(*self)[i],
            (sp_vals(*self).len() == 0) == (self.arr@.len() == 0 && self.dict@.dom() =~= Set::<DKey>::empty()),
    { unimplemented!() }
    /// Array::is_empty (proved in unit val_arrays)
    #[verifier::external_body]
    pub fn is_empty(&self) -> (r: bool) ensures r == (self.arr@.len() == 0 && self.dict@.dom() =~= Set::<DKey>::empty()), r == (sp_vals(*self).len() == 0) { unimplemented!() }
}
/// `iter.map(f)` collected: f is applied to every element (so its precondition must hold for every element)
#[verifier::external_body]
pub fn map_refs<'a, F: Fn(&&'a Val) -> &'a Rc<String>>(v: &Vec<&'a Val>, f: F) -> (r: Vec<&'a Rc<String>>)
    requires forall|i: int| 0 <= i < v@.len() ==> f.requires((&#[trigger] v@[i],)),
    ensures r@.len() == v@.len(), forall|i: int| 0 <= i < v@.len() ==> f.ensures((&v@[i],), #[trigger] r@[i]),
{ unimplemented!() }
#[verifier::external_body]
pub fn join_refs(parts: Vec<&Rc<String>>, d: &str) -> (r: String)
    ensures r@ == sp_join(parts@.map_values(|p: &Rc<String>| p@), d@)
{ unimplemented!() }
pub open spec fn all_string_vals(q: Seq<Val>) -> bool { forall|i: int| 0 <= i < q.len() ==> (#[trigger] q[i]) is String }
pub open spec fn join_ok(a: Array, dl: Seq<char>, new: Val, r: Result<(), ValError>) -> bool {
    if sp_vals(a).len() == 0 { r is Ok && new.v() == SVal::String(Seq::<char>::empty()) }
    else if all_string_vals(sp_vals(a)) { r is Ok && new.v() == SVal::String(sp_join(strings_of(sp_vals(a)), dl)) }
    else { exists|i: int| 0 <= i < sp_vals(a).len() && !(sp_vals(a)[i] is String) && r == Err::<(), ValError>(ValError::InvalidArrayElementForJoin(#[trigger] sp_vals(a)[i])) }
}
pub open spec fn join_spec(old: Val, delim: Option<Val>, new: Val, r: Result<(), ValError>) -> bool {
    match old {
        Val::Array(a) => match delim {
            None => join_ok(*a, Seq::<char>::empty(), new, r),
            Some(Val::String(d)) => join_ok(*a, d@, new, r),
            Some(d) => r == Err::<(), ValError>(ValError::InvalidJoinDelimiter(d)),
        },
        // (operand unchanged on this path: Kani c07__wrong_kind_unchanged — Verus guard quirk, see split)
        _ => (match r { Err(ValError::InvalidOperationForType(w, v)) => v == old && w@ == "join"@, _ => false }),
    }
}
