// std combinators without a vstd specification (assumed: these are their documented meanings)
pub assume_specification<T, U, D: FnOnce() -> U, F: FnOnce(T) -> U>[Option::<T>::map_or_else](o: Option<T>, default: D, f: F) -> (r: U)
    requires o is None ==> default.requires(()), o is Some ==> f.requires((o->Some_0,)),
    ensures o is None ==> default.ensures((), r), o is Some ==> f.ensures((o->Some_0,), r);
pub assume_specification<T, E, U, F: FnOnce(T) -> Result<U, E>>[Result::<T, E>::and_then](x: Result<T, E>, f: F) -> (r: Result<U, E>)
    requires x is Ok ==> f.requires((x->Ok_0,)),
    ensures match x { Ok(v) => f.ensures((v,), r), Err(e) => r == Err::<U, E>(e) };
pub assume_specification<T, U, F: FnOnce(T) -> U>[Option::<T>::map_or](o: Option<T>, default: U, f: F) -> (r: U)
    requires o is Some ==> f.requires((o->Some_0,)),
    ensures o is None ==> r == default, o is Some ==> f.ensures((o->Some_0,), r);
pub assume_specification<T>[std::mem::replace](dest: &mut T, src: T) -> (r: T)
    ensures r == *old(dest), *final(dest) == src;
pub assume_specification<T, E>[Result::<T, E>::unwrap_or](x: Result<T, E>, d: T) -> (r: T)
    ensures r == (match x { Ok(v) => v, Err(_) => d });
