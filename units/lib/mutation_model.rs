// model for ExecStmt::mutation_helper (C07)
#[verifier::external_body] pub struct PrimaryExpression { _p: u8 }
/// `M: Fn(&mut Val, Option<Val>) -> Result<(), ValError>` — the mutation (cut / join / cast), an uninterpreted function
#[verifier::external_body] pub struct Mutator { _p: u8 }
impl Mutator {
    pub uninterp spec fn apply(&self, v: Val, p: Option<Val>) -> (Val, Result<(), ValError>);
    #[verifier::external_body]
    pub fn call(&self, v: &mut Val, p: Option<Val>) -> (r: Result<(), ValError>)
        ensures (*final(v), r) == self.apply(*old(v), p)
    { unimplemented!() }
}
impl ExecStmt {
    /// `self.producer().visit_expression(e)`
    #[verifier::external_body]
    pub fn eval_out(&mut self, e: &Expression) -> (r: Result<ProduceValOutput, RuntimeError>)
        ensures final(self).control_flow_state == old(self).control_flow_state, final(self).return_val == old(self).return_val,
            match r {
                Ok(v) => final(self).trace@ == old(self).trace@.push(Event::Eval(*e, v.0)),
                Err(x) => final(self).trace@ == old(self).trace@.push(Event::EvalErr(*e, x)),
            },
    { unimplemented!() }
    /// `self.producer().visit_primary_expression(p)?.0`  (a read: no place is written)
    #[verifier::external_body]
    pub fn eval_primary(&mut self, p: &PrimaryExpression) -> (r: Result<Val, RuntimeError>)
        ensures final(self).control_flow_state == old(self).control_flow_state, final(self).return_val == old(self).return_val,
            final(self).trace@ == old(self).trace@.push(MEvent::read(*p, r)),
    { unimplemented!() }
    /// `self.raw_writer(|val| mutate(val, param.clone())).visit_primary_expression(operand).unwrap().0`
    #[verifier::external_body]
    pub fn mutate_in_place(&mut self, p: &PrimaryExpression, m: &Mutator, param: &Option<Val>) -> (r: Result<(), RuntimeError>)
        ensures final(self).control_flow_state == old(self).control_flow_state, final(self).return_val == old(self).return_val,
            final(self).trace@ == old(self).trace@.push(MEvent::in_place(*p, *m, *param, r)),
    { unimplemented!() }
}
impl ExecStmt {
    /// `self.raw_writer(|v| match r.direction { .. }).visit_expression(&r.operand).unwrap().0`: the rounding closure
    /// (rounding_table in unit exec_glue) applied to the place the operand denotes (write path: unit write_val)
    #[verifier::external_body]
    pub fn round_in_place(&mut self, r: &Rounding) -> (res: Result<(), RuntimeError>)
        ensures final(self).control_flow_state == old(self).control_flow_state, final(self).return_val == old(self).return_val,
            final(self).trace@ == old(self).trace@.push(MEvent::round(*r, res)),
    { unimplemented!() }
}
/// what the closure literal of visit_mutation computes, as proved of its body (mutation_table in unit exec_glue)
pub open spec fn mut_table(op: MutationOperator, v: Val, p: Option<Val>) -> (Val, Result<(), ValError>) {
    match op {
        MutationOperator::Cut => sp_split(v, p),
        MutationOperator::Join => sp_join(v, p),
        MutationOperator::Cast => sp_cast(v, p),
    }
}
pub open spec fn is_table_of(f: Mutator, m: Mutation) -> bool {
    forall|v: Val, p: Option<Val>| #[trigger] f.apply(v, p) == mut_table(m.operator, v, p)
}
/// the closure literal `|val, param| match m.operator { .. }` of visit_mutation, passed to mutation_helper as its `M`
#[verifier::external_body]
pub fn mutator_of(m: &Mutation) -> (f: Mutator) ensures is_table_of(f, *m) { unimplemented!() }
pub struct MEvent;
impl MEvent {
    pub uninterp spec fn read(p: PrimaryExpression, r: Result<Val, RuntimeError>) -> Event;
    pub uninterp spec fn in_place(p: PrimaryExpression, m: Mutator, param: Option<Val>, r: Result<(), RuntimeError>) -> Event;
    pub uninterp spec fn round(r: Rounding, res: Result<(), RuntimeError>) -> Event;
}

pub open spec fn mutation_protocol(m: Mutation, f: Mutator, old: Seq<Event>, new: Seq<Event>, r: Result<(), RuntimeError>) -> bool {
    let o = old.len() as int;
    extends(old, new) && {
        // 1. the parameter
        let np = (if m.param is Some { 1int } else { 0int });
        new.len() >= o + np
        && (m.param is Some ==> match new[o] {
                Event::EvalErr(e, x) => e == m.param->Some_0 && new.len() == o + 1 && r == Err::<(), RuntimeError>(x),
                Event::Eval(e, v) => e == m.param->Some_0,
                _ => false })
        && ((m.param is None || new[o] is Eval) ==> {
            let param = (if m.param is Some { Some(new[o]->Eval_1) } else { None::<Val> });
            match m.dest {
                // 2a. into dest: read the operand, mutate the copy, assign the copy to dest
                Some(dest) => new.len() >= o + np + 1 && exists|rv: Result<Val, RuntimeError>| #[trigger] MEvent::read(m.operand, rv) == new[o + np] && match rv {
                    Err(x) => new.len() == o + np + 1 && r == Err::<(), RuntimeError>(x),
                    Ok(v) => match f.apply(v, param).1 {
                        Err(e) => new.len() == o + np + 1 && r == Err::<(), RuntimeError>(RuntimeError::ValError(e)),
                        Ok(()) => new.len() == o + np + 2 && match new[o + np + 1] {
                            Event::Assign(d, w) => d == dest && w == f.apply(v, param).0 && r is Ok,
                            Event::AssignErr(d, x) => d == dest && r == Err::<(), RuntimeError>(x),
                            _ => false },
                    },
                },
                // 2b. in place
                None => new.len() == o + np + 1 && exists|rr: Result<(), RuntimeError>| #[trigger] MEvent::in_place(m.operand, f, param, rr) == new[o + np]
                    && r == rr,
            }
        })
    }
}
