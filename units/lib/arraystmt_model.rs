// model for ExecStmt::visit_array_push / visit_array_pop / array_push_helper (C06)
#[verifier::external_body] pub struct ArrayPopExpr { _p: u8 }
#[verifier::external_body] pub struct PoeticNumberLiteral { _p: u8 }
//@item src/frontend/ast.rs | enum | ArrayPushRHS
//@end
//@item src/frontend/ast.rs | struct | ArrayPush
//@end
//@item src/frontend/ast.rs | struct | ArrayPop
//@end
pub struct QEvent;
impl QEvent {
    /// `roll <array>` evaluated (the array loses its first element as a side effect of the producer)
    pub uninterp spec fn pop(e: ArrayPopExpr, r: Result<Val, RuntimeError>) -> Event;
    /// a poetic literal evaluated
    pub uninterp spec fn lit(l: PoeticNumberLiteral, r: Result<Val, RuntimeError>) -> Event;
    /// `Val::push(vals)` (unit val_arrays) applied to the place `array` denotes, created if absent
    pub uninterp spec fn push(array: PrimaryExpression, vals: Seq<Val>, r: Result<(), RuntimeError>) -> Event;
}
pub open spec fn el_at(l: ExpressionList, i: int) -> Expression { if i == 0 { l.first } else { l.rest@[i - 1] } }
impl ExpressionList {
    /// the expressions of `ExpressionList::iter()` = once(&first).chain(rest.iter()), collected
    #[verifier::external_body]
    pub fn all(&self) -> (r: Vec<&Expression>)
        ensures r@.len() == 1 + self.rest@.len(), forall|i: int| 0 <= i < r@.len() ==> *(#[trigger] r@[i]) == el_at(*self, i)
    { unimplemented!() }
    /// ExpressionList::len  (1 + rest.len(): cannot overflow, a Vec holds at most isize::MAX elements)
    #[verifier::external_body]
    pub fn len(&self) -> (r: usize) ensures r == 1 + self.rest@.len() { unimplemented!() }
}
impl ExecStmt {
    /// `self.producer().visit_array_pop_expr(e)?.0`
    #[verifier::external_body]
    pub fn eval_pop(&mut self, e: &ArrayPopExpr) -> (r: Result<Val, RuntimeError>)
        ensures final(self).control_flow_state == old(self).control_flow_state, final(self).return_val == old(self).return_val,
            final(self).trace@ == old(self).trace@.push(QEvent::pop(*e, r)),
    { unimplemented!() }
    /// `self.producer().visit_poetic_number_literal(lit)?.0`
    #[verifier::external_body]
    pub fn eval_lit(&mut self, l: &PoeticNumberLiteral) -> (r: Result<Val, RuntimeError>)
        ensures final(self).control_flow_state == old(self).control_flow_state, final(self).return_val == old(self).return_val,
            final(self).trace@ == old(self).trace@.push(QEvent::lit(*l, r)),
    { unimplemented!() }
    /// `self.raw_writer(|arr| arr.push(<vals>)).visit_primary_expression(array).unwrap().0`
    #[verifier::external_body]
    pub fn push_in_place(&mut self, array: &PrimaryExpression, vals: Vec<Val>) -> (r: Result<(), RuntimeError>)
        ensures final(self).control_flow_state == old(self).control_flow_state, final(self).return_val == old(self).return_val,
            final(self).trace@ == old(self).trace@.push(QEvent::push(*array, vals@, r)),
    { unimplemented!() }
}
pub open spec fn pop_protocol(a: ArrayPop, old: Seq<Event>, new: Seq<Event>, r: Result<(), RuntimeError>) -> bool {
    let o = old.len() as int;
    extends(old, new) && new.len() >= o + 1 && exists|rv: Result<Val, RuntimeError>| #[trigger] QEvent::pop(a.expr, rv) == new[o] && match rv {
        Err(x) => new.len() == o + 1 && r == Err::<(), RuntimeError>(x),
        Ok(v) => match a.dest {
            Some(d) => new.len() == o + 2 && assign_tail(d, v, new[o + 1], r),
            None => new.len() == o + 1 && r is Ok,       // the element is removed and dropped
        },
    }
}
/// rock <array> [with e1, e2, … | like <literal>]: the values are evaluated left to right, once each, BEFORE the array
/// is touched; the first failure stops the statement; then ONE push of all values in order; no value list = push of
/// nothing (which still turns the target into an array)
pub open spec fn push_protocol(a: ArrayPush, old: Seq<Event>, new: Seq<Event>, r: Result<(), RuntimeError>) -> bool {
    let o = old.len() as int;
    extends(old, new) && match a.value {
        None => new.len() == o + 1 && new[o] == QEvent::push(a.array, Seq::<Val>::empty(), r),
        Some(ArrayPushRHS::PoeticNumberLiteral(l)) => new.len() >= o + 1 && exists|rv: Result<Val, RuntimeError>| #[trigger] QEvent::lit(l, rv) == new[o] && match rv {
            Err(x) => new.len() == o + 1 && r == Err::<(), RuntimeError>(x),
            Ok(v) => new.len() == o + 2 && new[o + 1] == QEvent::push(a.array, seq![v], r),
        },
        Some(ArrayPushRHS::ExpressionList(l)) => {
            let n = 1 + l.rest@.len();
            let k = new.len() - o - 1;      // how many evaluations succeeded
            0 <= k <= n && evals_ok(new, o, k, l)
            && (if k < n { r is Err && new[o + k] == Event::EvalErr(el_at(l, k), r->Err_0) }
                else { exists|vs: Seq<Val>| #[trigger] QEvent::push(a.array, vs, r) == new[o + n] && vs =~= eval_vals(new, o, n as int) })
        },
    }
}
/// new[o..o+k) are successful evaluations of the first k expressions of l, in order
pub open spec fn evals_ok(t: Seq<Event>, o: int, k: int, l: ExpressionList) -> bool {
    forall|i: int| 0 <= i < k ==> (#[trigger] t[o + i]) is Eval && t[o + i]->Eval_0 == el_at(l, i)
}
pub open spec fn eval_vals(t: Seq<Event>, o: int, k: int) -> Seq<Val> { Seq::new(k as nat, |i: int| t[o + i]->Eval_1) }
