"""Light-weight Rust source scanning: mask comments/strings, match braces, locate items.

Not a parser.  It is deliberately conservative: anything it cannot locate unambiguously raises
LostAnchor, which the checks report as exit 2 (UNDECIDED), never as a violation.
"""
import hashlib
import re


class LostAnchor(Exception):
    pass


def mask(src: str) -> str:
    """Return a string of identical length in which the *contents* of comments, string literals and char
    literals are replaced by spaces (newlines kept), so that brace matching and regex search on the
    result are not fooled; offsets are valid in the original text."""
    out = list(src)
    i, n = 0, len(src)

    def blank(a, b):
        for k in range(a, b):
            if out[k] != '\n':
                out[k] = ' '

    while i < n:
        c = src[i]
        if c == '/' and i + 1 < n and src[i + 1] == '/':
            j = src.find('\n', i)
            j = n if j < 0 else j
            blank(i, j)
            i = j
        elif c == '/' and i + 1 < n and src[i + 1] == '*':
            depth, j = 1, i + 2
            while j < n and depth:
                if src.startswith('/*', j):
                    depth += 1
                    j += 2
                elif src.startswith('*/', j):
                    depth -= 1
                    j += 2
                else:
                    j += 1
            blank(i, j)
            i = j
        elif c == '"' or (c in 'rb' and re.match(r'(?:b?r#*"|b")', src[i:i + 8]) and not (i > 0 and (src[i - 1].isalnum() or src[i - 1] == '_'))):
            m = re.match(r'b?r(#*)"', src[i:i + 16])
            if m:  # raw string
                hashes = m.group(1)
                start = i + m.end()
                end = src.find('"' + hashes, start)
                if end < 0:
                    raise LostAnchor('unterminated raw string')
                blank(start, end)
                i = end + 1 + len(hashes)
            else:
                start = i + (2 if c == 'b' else 1)
                j = start
                while j < n and src[j] != '"':
                    j += 2 if src[j] == '\\' else 1
                blank(start, j)
                i = j + 1
        elif c == "'":
            # char literal or lifetime
            m = re.match(r"'(?:\\(?:x[0-9a-fA-F]{2}|u\{[0-9a-fA-F_]+\}|.)|[^\\'])'", src[i:i + 14])
            if m:
                blank(i + 1, i + m.end() - 1)
                i += m.end()
            else:
                i += 1
        else:
            i += 1
    return ''.join(out)


_OPEN = {'{': '}', '(': ')', '[': ']'}


def match_close(masked: str, pos: int) -> int:
    """pos points at an opening bracket in masked text; return index of the matching close."""
    stack = []
    for k in range(pos, len(masked)):
        ch = masked[k]
        if ch in _OPEN:
            stack.append(_OPEN[ch])
        elif ch in ')}]':
            if not stack or stack.pop() != ch:
                raise LostAnchor('unbalanced brackets at %d' % k)
            if not stack:
                return k
    raise LostAnchor('unterminated bracket at %d' % pos)


def line_of(src: str, pos: int) -> int:
    return src.count('\n', 0, pos) + 1


def norm_ws(s: str) -> str:
    return re.sub(r'\s+', ' ', s).strip()


class SourceFile:
    def __init__(self, path, text=None):
        self.path = path
        self.src = open(path).read() if text is None else text
        self.m = mask(self.src)
        self._chains = None

    # ------------------------------------------------------------------ enclosing block headers
    def chain_at(self, pos):
        """headers (normalised text before the '{') of the blocks enclosing pos, outermost first"""
        stack = []
        m = self.m
        for k in range(pos):
            ch = m[k]
            if ch == '{':
                stack.append(k)
            elif ch == '}':
                if stack:
                    stack.pop()
        heads = []
        for b in stack:
            j = b - 1
            depth = 0
            # walk back to previous ; { } at bracket depth 0
            while j >= 0:
                ch = m[j]
                if ch in ')]':
                    depth += 1
                elif ch in '([':
                    depth -= 1
                elif depth == 0 and ch in ';{}':
                    break
                j -= 1
            heads.append(norm_ws(m[j + 1:b]))
        return heads

    # ------------------------------------------------------------------ functions
    def find_fn(self, ctx_regex, name):
        """Locate `fn name` whose enclosing-header chain matches ctx_regex ('-' = top level).
        Returns dict(sig, body, start, sig_start, body_start, body_end, line)."""
        hits = []
        for mm in re.finditer(r'\bfn\s+%s\b' % re.escape(name), self.m):
            chain = self.chain_at(mm.start())
            if ctx_regex in ('-', ''):
                ok = len(chain) == 0
            else:
                ok = any(re.search(ctx_regex, h) for h in chain)
            if ok:
                hits.append((mm, chain))
        if len(hits) != 1:
            raise LostAnchor('%s: expected exactly one `fn %s` in context /%s/, found %d'
                             % (self.path, name, ctx_regex, len(hits)))
        mm, chain = hits[0]
        m = self.m
        # parameter list
        p = m.find('(', mm.end())
        # generics may contain parens in bounds like Fn(..); find first '(' at angle depth 0
        k, angle = mm.end(), 0
        while k < len(m):
            ch = m[k]
            if ch == '<':
                angle += 1
            elif ch == '>' and m[k - 1] != '-':
                angle -= 1
            elif ch == '(' and angle == 0:
                p = k
                break
            k += 1
        pe = match_close(m, p)
        # body brace: first '{' or ';' at bracket depth 0 after the params
        k, depth = pe + 1, 0
        while k < len(m):
            ch = m[k]
            if ch in '([':
                depth += 1
            elif ch in ')]':
                depth -= 1
            elif depth == 0 and ch in '{;':
                break
            k += 1
        if k >= len(m) or m[k] != '{':
            raise LostAnchor('%s: fn %s has no body' % (self.path, name))
        be = match_close(m, k)
        return dict(sig=self.src[mm.start():k].rstrip(), body=self.src[k:be + 1], masked_body=m[k:be + 1],
                    start=mm.start(), body_start=k, body_end=be, line=line_of(self.src, mm.start()),
                    chain=chain, params=self.src[p:pe + 1],
                    sha256=hashlib.sha256(self.src[mm.start():be + 1].encode()).hexdigest())

    # ------------------------------------------------------------------ type items / macros / statics
    def find_item(self, kind, name):
        """kind in enum|struct|macro_rules|impl-header-regex...; returns dict(text, attrs, line)."""
        m = self.m
        if kind == 'macro_rules':
            pat = r'\bmacro_rules!\s*%s\b' % re.escape(name)
        else:
            pat = r'\b(?:pub(?:\([a-z]+\))?\s+)?%s\s+%s\b' % (kind, re.escape(name))
        hits = [mm for mm in re.finditer(pat, m) if not self.chain_at(mm.start()) or kind == 'macro_rules']
        if len(hits) != 1:
            raise LostAnchor('%s: expected exactly one `%s %s`, found %d' % (self.path, kind, name, len(hits)))
        mm = hits[0]
        k, depth = mm.end(), 0
        while k < len(m):
            ch = m[k]
            if ch in '([':
                depth += 1
            elif ch in ')]':
                depth -= 1
            elif depth == 0 and ch in '{;':
                break
            k += 1
        end = match_close(m, k) if m[k] == '{' else k
        # tuple structs `struct X(..);`
        if m[k] != '{' and kind == 'struct':
            end = k
        # preceding attributes
        start = mm.start()
        attrs = []
        lines = self.src[:start].split('\n')
        # lines[-1] is the (possibly empty) text before the item on its own line
        idx = len(lines) - 2
        while idx >= 0:
            pl = lines[idx].strip()
            if pl.startswith('#[') and pl.endswith(']'):
                attrs.insert(0, pl)
                idx -= 1
            else:
                break
        text = self.src[start:end + 1]
        return dict(text=text, attrs=attrs, line=line_of(self.src, start), start=start, end=end,
                    sha256=hashlib.sha256(text.encode()).hexdigest())


def find_loops(masked_body: str):
    """positions (offset of keyword, offset of body '{') of while/for/loop in textual order"""
    res = []
    for mm in re.finditer(r'\b(while|for|loop)\b', masked_body):
        kw = mm.group(1)
        if kw == 'for':
            # skip `for<'a>` HRTB and `impl X for Y`
            after = masked_body[mm.end():mm.end() + 2]
            if after.lstrip().startswith('<'):
                continue
        k, depth = mm.end(), 0
        while k < len(masked_body):
            ch = masked_body[k]
            if ch in '([':
                depth += 1
            elif ch in ')]':
                depth -= 1
            elif depth == 0 and ch == '{':
                break
            k += 1
        if k < len(masked_body):
            res.append((mm.start(), k))
    return res


def split_sig(sig: str):
    """split 'fn name<..>(params) -> Ret where ..' into (head_up_to_params, ret or None, where or '')"""
    m = mask(sig)
    # find params
    k, angle = m.index('fn') + 2, 0
    p = None
    while k < len(m):
        ch = m[k]
        if ch == '<':
            angle += 1
        elif ch == '>' and m[k - 1] != '-':
            angle -= 1
        elif ch == '(' and angle == 0:
            p = k
            break
        k += 1
    pe = match_close(m, p)
    rest = sig[pe + 1:]
    mrest = m[pe + 1:]
    wm = re.search(r'\bwhere\b', mrest)
    where = rest[wm.start():] if wm else ''
    rpart = rest[:wm.start()] if wm else rest
    am = re.search(r'->', rpart)
    ret = rpart[am.end():].strip() if am else None
    return sig[:pe + 1], ret, where.strip()


def find_closures(masked_body: str):
    """closures in textual order: list of (start, params_end, body_start, body_end) with
    masked_body[start] == '|' (or 'm' of `move |`), params in (start.., params_end], body = [body_start, body_end)."""
    res = []
    m = masked_body
    i, n = 0, len(m)
    while i < n:
        if m[i] == '|':
            # is this the start of a closure?  previous significant char must be ( , = { ; or keyword move/return
            j = i - 1
            while j >= 0 and m[j] in ' \n\t':
                j -= 1
            prev = m[j] if j >= 0 else '('
            prevword = re.search(r'(\w+)\s*$', m[:i])
            is_start = prev in '(,={;' or (prevword and prevword.group(1) in ('move', 'return'))
            if m[i:i + 2] == '||' and is_start:
                pe = i + 1
            elif is_start:
                # find closing | at depth 0
                k, depth = i + 1, 0
                while k < n:
                    ch = m[k]
                    if ch in '([<':
                        depth += 1
                    elif ch in ')]>':
                        depth -= 1
                    elif ch == '|' and depth <= 0:
                        break
                    k += 1
                pe = k
            else:
                i += 1
                continue
            # body
            b = pe + 1
            while b < n and m[b] in ' \n\t':
                b += 1
            # optional `-> T` return type: the body is then the block after the type
            if m[b:b + 2] == '->':
                k, depth = b + 2, 0
                while k < n and not (m[k] == '{' and depth == 0):
                    depth += m[k] in '<(['
                    depth -= m[k] in '>)]'
                    k += 1
                b = k
            if b < n and m[b] == '{':
                be = match_close(m, b) + 1
            else:
                k, depth = b, 0
                while k < n:
                    ch = m[k]
                    if ch in '([{':
                        depth += 1
                    elif ch in ')]}':
                        if depth == 0:
                            break
                        depth -= 1
                    elif ch == ',' and depth == 0:
                        break
                    elif ch == ';' and depth == 0:
                        break
                    k += 1
                be = k
            start = i
            if prevword and prevword.group(1) == 'move':
                start = prevword.start(1)
            res.append((start, pe, b, be))
            i = pe + 1
        else:
            i += 1
    return res
