"""E-K: Kani on the real crate.

Every run: rsync /repo's working tree (no target/, no .git) to a scratch copy, append
`#[cfg(kani)] #[path = ".../kani/<file>.rs"] mod kani_<file>;` to the module each harness file names in
its first line (`//@inject src/...`), run `cargo kani` offline on the harnesses selected by name filter,
read Kani's --export-json, classify.
"""
import fcntl
import json
import os
import re
import shutil
import subprocess
import time

ROOT = os.path.dirname(os.path.dirname(os.path.abspath(__file__)))
REPO = os.environ.get('VERIF_REPO', '/repo')
SCRATCH = os.environ.get('VERIF_SCRATCH', '/var/tmp/rrss-verif')
KANI_DIR = os.path.join(ROOT, 'kani')

# enum constructors whose payload is a pointer living in a union next to an f64 (CBMC 6.11 simplifier bug,
# DESIGN.md §9.3).  A harness that mentions one is refused.
FORBIDDEN = [r'\bVal::String\b', r'\bVal::Array\b', r'\bVal::from\b', r'TokenType::StringLiteral',
             r'TokenType::Comment', r'LiteralExpression::String']


class KaniError(Exception):
    pass


def harness_files(tier):
    res = []
    for fn in sorted(os.listdir(KANI_DIR)):
        if not fn.endswith('.rs'):
            continue
        path = os.path.join(KANI_DIR, fn)
        head = open(path).read(4000)
        m = re.search(r'^//@inject\s+(\S+)', head, re.M)
        if not m:
            continue
        t = re.search(r'^//@tier\s+(\S+)', head, re.M)
        ftier = t.group(1) if t else 'quick'
        if ftier == 'thorough' and tier != 'thorough':
            continue
        allow = re.search(r'^//@allow-pointer-variants\b', head, re.M) is not None
        res.append(dict(path=path, inject=m.group(1), mod='kani_' + fn[:-3], allow=allow))
    return res


def scan_forbidden(files):
    bad = []
    for f in files:
        if f['allow']:
            continue
        for ln, line in enumerate(open(f['path']), 1):
            code = line.split('//')[0]
            for pat in FORBIDDEN:
                if re.search(pat, code):
                    bad.append('%s:%d: %s' % (f['path'], ln, pat))
    return bad


def prune_target(target, keep=3):
    """cargo kani leaves one output directory (goto binaries, several hundred MB to GB) per distinct compilation of the crate;
    only the newest few are worth keeping as a cache (disk space is limited).  Runs under the lock."""
    import glob
    import shutil
    for d in glob.glob(os.path.join(target, 'kani', '*', 'debug', 'build', 'rrss')):
        subs = sorted((os.path.join(d, x) for x in os.listdir(d)), key=lambda x: os.path.getmtime(x), reverse=True)
        for old in subs[keep:]:
            shutil.rmtree(old, ignore_errors=True)


def prepare(tier):
    """returns (workdir, target_dir, lock_handle, files)"""
    os.makedirs(SCRATCH, exist_ok=True)
    lock = open(os.path.join(SCRATCH, 'kani.lock'), 'w')
    fcntl.flock(lock, fcntl.LOCK_EX)
    work = os.path.join(SCRATCH, 'kani-work')
    target = os.path.join(SCRATCH, 'kani-target')
    os.makedirs(work, exist_ok=True)
    prune_target(target)
    subprocess.run(['rsync', '-a', '--delete', '--exclude', '/target', '--exclude', '/.git',
                    REPO.rstrip('/') + '/', work + '/'], check=True)
    files = harness_files(tier)
    bad = scan_forbidden(files)
    if bad:
        raise KaniError('harness mentions a pointer-carrying enum variant (CBMC union bug): ' + '; '.join(bad))
    hdir = os.path.join(SCRATCH, 'kani-harness')
    os.makedirs(hdir, exist_ok=True)
    for f in files:
        tgt = os.path.join(work, f['inject'])
        if not os.path.exists(tgt):
            raise KaniError('lost anchor: %s does not exist' % f['inject'])
        # harness text is used as is, except that regions between `//@slow-begin` and `//@slow-end` are
        # blanked in the quick tier (harnesses whose symbolic execution takes minutes run in thorough only)
        src = open(f['path']).read()
        if tier != 'thorough':
            out, skipping = [], False
            for line in src.split('\n'):
                if line.strip().startswith('//@slow-begin'):
                    skipping = True
                elif line.strip().startswith('//@slow-end'):
                    skipping = False
                    out.append('')
                    continue
                out.append('' if skipping else line)
            src = '\n'.join(out)
        f['gen_path'] = os.path.join(hdir, os.path.basename(f['path']))
        open(f['gen_path'], 'w').write(src)
        with open(tgt, 'a') as fh:
            fh.write('\n#[cfg(kani)]\n#[path = "%s"]\npub(crate) mod %s;\n' % (f['gen_path'], f['mod']))
    return work, target, lock, files


def run(tier, filters, timeout_s=None, jobs=None, extra_args=()):
    """Run all harnesses whose qualified name contains one of `filters`.  Returns dict with per-harness results."""
    t0 = time.time()
    work, target, lock, files = prepare(tier)
    try:
        out_json = os.path.join(SCRATCH, 'kani-out-%d.json' % os.getpid())
        if os.path.exists(out_json):
            os.remove(out_json)
        jobs = jobs or int(os.environ.get('VERIF_JOBS', '16'))
        timeout_s = timeout_s or (300 if tier == 'quick' else 1800)
        cmd = ['cargo', 'kani', '-j', str(jobs), '--output-format=terse', '--no-overflow-checks',
               '-Z', 'unstable-options', '--harness-timeout', '%ds' % timeout_s, '--export-json', out_json]
        for f in filters:
            cmd += ['--harness', f]
        cmd += list(extra_args)
        env = dict(os.environ, CARGO_TARGET_DIR=target, CARGO_NET_OFFLINE='true')
        p = subprocess.run(cmd, cwd=work, env=env, stdout=subprocess.PIPE, stderr=subprocess.STDOUT, text=True)
        log = p.stdout
        res = dict(cmd=' '.join(cmd), log_tail=log[-4000:], rc=p.returncode, harnesses={}, wall_s=0.0,
                   build_failed=False)
        if not os.path.exists(out_json):
            res['build_failed'] = True
            res['compile_errors'] = [l for l in log.splitlines() if l.startswith('error')][:20]
            return res
        d = json.load(open(out_json))
        os.remove(out_json)
        errs = {e['harness_id']: e for e in d.get('error_details', [])}
        cb = {e['harness_id']: e for e in d.get('cbmc', [])}
        failed_desc = parse_failed_checks(log)
        for r in d['verification_results']['results']:
            hid = r['harness_id']
            bad = [c for c in r.get('checks', [])
                   if c['status'] not in ('Success', 'Satisfied', 'Unreachable', 'SUCCESS', 'SATISFIED', 'UNREACHABLE')]
            bad.sort(key=lambda c: 0 if c['status'].lower() in ('failure', 'unsatisfiable') else 1)
            res['harnesses'][hid] = dict(
                status=r['status'], duration_ms=r['duration_ms'],
                checks=len(r.get('checks', [])),
                failed_checks=[dict(description=c.get('description', ''), category=c.get('category', ''),
                                    status=c['status'], file=c.get('location', {}).get('file', ''),
                                    line=c.get('location', {}).get('line', ''),
                                    function=c.get('function', '')) for c in bad][:10],
                error=errs.get(hid, {}),
                solver=((cb.get(hid) or {}).get('configuration') or {}).get('solver', 'cadical'),
                solver_s=((cb.get(hid) or {}).get('cbmc_stats') or {}).get('runtime_decision_procedure_s', None),
            )
        res['tools'] = d.get('tools', {})
        res['wall_s'] = time.time() - t0
        return res
    finally:
        fcntl.flock(lock, fcntl.LOCK_UN)
        lock.close()


def parse_failed_checks(log):
    return re.findall(r'Failed Checks: (.*)', log)


def classify(hid, h):
    """-> ('ok'|'violation'|'undecided'|'canary_ok'|'canary_vacuous', reason)"""
    name = hid.split('::')
    is_canary = any(seg.startswith('canary_') for seg in name)
    st = h['status']
    if st == 'Success':
        return ('canary_vacuous', 'canary harness verified: vacuity guard tripped') if is_canary else ('ok', '')
    err = h.get('error') or {}
    exit_status = err.get('exit_status', '')
    fc = h.get('failed_checks', [])
    if exit_status and exit_status != 'properties_failed':
        return ('undecided', 'verifier did not complete: %s' % exit_status)
    if not fc:
        return ('undecided', 'failure without a failed check (%s)' % (exit_status or st))
    real = []
    terminates = '__terminates' in hid
    for c in fc:
        d = c['description']
        if terminates and ('unwinding assertion' in d or 'recursion' in d) and c['status'].lower() == 'failure':
            real.append(dict(c, description='recursion/loop does not bottom out within the stated bound: ' + d))
            continue
        if 'unwinding assertion' in d or c['category'] in ('unwind', 'unsupported_construct') \
                or 'not currently supported' in d or 'is not supported' in d:
            continue
        if c['status'] not in ('Failure', 'FAILURE', 'Unsatisfiable', 'UNSATISFIABLE', 'Uncoverable'):
            continue
        real.append(c)
    if not real:
        return ('undecided', 'only unwinding/unsupported-construct checks failed: ' + fc[0]['description'][:120])
    if is_canary:
        return ('canary_ok', real[0]['description'][:160])
    c = real[0]
    return ('violation', '%s (%s:%s)' % (c['description'][:200], os.path.basename(c['file']), c['line']))


def playback(tier, harness_id):
    """Re-run one failing harness with concrete playback; return (tests_source, native_result_text)."""
    work, target, lock, files = prepare(tier)
    try:
        env = dict(os.environ, CARGO_TARGET_DIR=target, CARGO_NET_OFFLINE='true')
        cmd = ['cargo', 'kani', '--output-format=terse', '--no-overflow-checks', '-Z', 'concrete-playback',
               '--concrete-playback=print', '--harness', harness_id, '--exact']
        p = subprocess.run(cmd, cwd=work, env=env, stdout=subprocess.PIPE, stderr=subprocess.STDOUT, text=True,
                           timeout=3600)
        tests = re.findall(r'```\n(.*?)```', p.stdout, re.S)
        tests = [t for t in tests if '#[test]' in t]
        # keep the tests generated for failed assertions, not for covers
        fail_tests = [t for t in tests if 'Check for `cover`' not in t] or tests
        native = ''
        if fail_tests:
            # which harness file defines it?
            leaf = harness_id.split('::')
            modname = next((s for s in leaf if s.startswith('kani_')), None)
            f = next((f for f in files if f['mod'] == modname), None)
            if f is not None:
                # the harness function may live in a nested module: add `use` of everything reachable
                pb_src = open(f['gen_path']).read()
                # harness functions (zero-argument, unit-returning fns, also inside macro bodies) must be visible to the
                # generated test module
                pb_src = re.sub(r'(\n[ \t]*)fn (\w+|\$\w+)\(\) \{', r'\1pub(crate) fn \2() {', pb_src)
                inner = '::'.join(leaf[leaf.index(modname) + 1:-1])
                tests_mod = '\n#[cfg(test)]\nmod kani_playback_tests {\n    use super::%s*;\n%s\n}\n' % (
                    (inner + '::') if inner else '', '\n'.join(fail_tests[:1]))
                pb_path = os.path.join(SCRATCH, 'kani-playback-%s.rs' % modname)
                open(pb_path, 'w').write(pb_src + tests_mod)
                tgt = os.path.join(work, f['inject'])
                s = open(tgt).read().replace('#[path = "%s"]' % f['gen_path'], '#[path = "%s"]' % pb_path)
                s = s.replace('#[cfg(kani)]\n#[path = "%s"]' % pb_path, '#[cfg(any(kani, test))]\n#[path = "%s"]' % pb_path)
                open(tgt, 'w').write(s)
                tn = re.search(r'fn (kani_concrete_playback_\w+)', fail_tests[0]).group(1)
                q = subprocess.run(['cargo', 'kani', 'playback', '-Z', 'concrete-playback', '--', tn],
                                   cwd=work, env=env, stdout=subprocess.PIPE, stderr=subprocess.STDOUT, text=True,
                                   timeout=3600)
                keep = [l for l in q.stdout.splitlines()
                        if re.search(r'panicked|test result|^test |assertion|FAILED|failed', l)]
                native = '\n'.join(keep[-30:])
                os.remove(pb_path)
        return fail_tests, native
    finally:
        fcntl.flock(lock, fcntl.LOCK_UN)
        lock.close()
