#!/bin/sh
# usage: mutant.sh <patch.diff> <cmd...>   -- run cmd with VERIF_REPO pointing at a scratch copy of /repo with the patch applied
set -e
P="$1"; shift
M=${VERIF_SCRATCH:-/var/tmp/rrss-verif}/mut
mkdir -p "$M"
rsync -a --delete --exclude /target --exclude /.git /repo/ "$M/"
(cd "$M" && patch -p1 -s < "$P")
VERIF_REPO="$M" "$@"
