#!/usr/bin/env python3
"""developer helper: build one Verus unit from the current /repo, run Verus, print diagnostics.
usage: vunit.py <unit> [--keep] [--raw]"""
import os
import sys

sys.path.insert(0, os.path.dirname(os.path.abspath(__file__)))
import verus_engine as ve  # noqa: E402
from rsrc import LostAnchor  # noqa: E402


def main():
    unit = sys.argv[1]
    keep = '--keep' in sys.argv
    os.environ['VERIF_KEEP'] = '1' if keep else ''
    try:
        r = ve.run_unit(unit, keep=keep)
    except (LostAnchor, ve.UnitError) as e:
        print('UNDECIDED (build):', e)
        return 2
    a = r['analysis']
    print('generated:', r['meta']['path'], 'cmd:', r['run']['cmd'], 'wall %.1fs' % r['run']['wall_s'])
    print('verus verified=%d errors=%d  canaries %d/%d  smt=%dms' % (
        a['verified'], a['errors'], a['canaries_ok'], a['canaries_total'], a['smt_ms']))
    for k, f in a['functions'].items():
        print('  %-50s %-10s %s' % (k, f['status'], '' if f['time_ms'] is None else '%dms' % f['time_ms']))
        for e in f['errors'][:6]:
            print('       - %s @%d %s | %s' % (e['message'], e['gen_line'], e['label'], e['text'][:140]))
    for u in a['undecided']:
        print('  UNDECIDED:', u[:400])
    if '--raw' in sys.argv:
        for d in r['diags']:
            print(d.get('rendered', '')[:1500])
    if '--trusted' in sys.argv:
        for t in r['trusted']:
            print('  trusted:', t)
    return 0


if __name__ == '__main__':
    sys.exit(main())
