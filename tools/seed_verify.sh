#!/bin/sh
# usage: seed_verify.sh <ID> <k>   -- confirm a sub-agent's seeded defect in its scratch worktree /tmp/mut/<ID>:
#   with the patch: crate builds, only the 10 always-failing baseline tests fail, the demo FAILS; without it: the demo PASSES.
# Writes /tmp/mut/<ID>-out/<k>/confirm.txt
ID=$1; K=$2; WT=/tmp/mut/$ID; OUT=/tmp/mut/$ID-out/$K
KNOWN="and_test fibonacci function_calls hello_world indented_else ninety_nine_beers poetic_numbers push simple_conditionals truthiness_test"
cd $WT || exit 2
git checkout -q --detach main 2>/dev/null; git checkout -q -- . ; rm -f tests/seeded_demo.rs
{
echo "worktree at $(git log --oneline | head -1)"
if ! git apply --check $OUT/patch.diff 2>/dev/null; then echo "RESULT: patch does not apply to current main"; exit 0; fi
git apply $OUT/patch.diff
FAILS=$(cargo test --workspace --no-fail-fast --offline 2>&1 | grep -E "^test .* \.\.\. FAILED" | sed 's/ \.\.\. FAILED//; s/^test //' | sed 's/.*:://' | sort -u | tr '\n' ' ')
PASSED=$(cargo test --workspace --no-fail-fast --offline 2>&1 | grep -E "^test result" | sed 's/.* \([0-9]*\) passed.*/\1/' | paste -sd+ | bc)
UNEXP=""
for t in $FAILS; do case " $KNOWN " in *" $t "*) ;; *) UNEXP="$UNEXP $t";; esac; done
echo "with patch: baseline passed=$PASSED failing=[$FAILS] unexpected=[$UNEXP]"
cp $OUT/demo.rs tests/seeded_demo.rs
echo "with patch: demo: $(cargo test --offline --test seeded_demo 2>&1 | grep -E '^test result' | head -1)"
git checkout -q -- src
echo "without patch: demo: $(cargo test --offline --test seeded_demo 2>&1 | grep -E '^test result' | head -1)"
rm -f tests/seeded_demo.rs
} > $OUT/confirm.txt 2>&1
cat $OUT/confirm.txt | tail -3
