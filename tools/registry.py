"""Which units / harness families decide which property.  MANIFEST.json is generated from this file
(tools/gen_manifest.py) so the two cannot drift."""

# verus: list of unit names (units/<name>.vrs); every extracted function in the unit is an obligation of the
#        property unless the function carries its own `//@props` that excludes it.
# kani:  list of harness-name filters (substring of the qualified harness name); tag convention `cNN_`.
V = 'Verus contracts on functions extracted from /repo each run'
K = 'Kani loop-free full-domain harnesses on the compiled crate'

PROPS = {
    'C03': dict(
        title='Expressions evaluate by the Rockstar value rules for every operand kind',
        verus=['val_ops', 'fold'], kani=['c03_'],
        technique=V + ' (val.rs coercion/comparison/arithmetic/rendering against reference tables for all six kinds; '
                      'produce_val.rs operator step incl. short-circuit call counts; floats uninterpreted) + ' + K +
                  ' (all f64/bool payloads of the four scalar kinds, IEEE bit-precise, through Val::* and binary_operator_fold)',
    ),
    'C04': dict(
        title='Control flow follows the program text',
        verus=['exec_flow', 'exec_glue'], kani=[],
        technique=V + ': block/if/while/until/break/continue/return of exec_stmt.rs against trace languages over a ghost '
                      'event trace with abstract callees (unbounded: all blocks, all iteration counts, failing callees)',
    ),
    'C05': dict(
        title='Functions, scopes and pronouns',
        verus=['env', 'call', 'exec_flow', 'exec_glue'], kani=[],
        technique=V + ': environment.rs scope stack / innermost-first lookup / pronoun referent against a Seq<Map> view '
                      '(SymTable abstract), the call protocol of ProduceVal::visit_function_call (arity before arguments, arguments left to '
                      'right once each, by-value binding, fresh executor, pop, first return value), scope push/pop per loop '
                      'iteration and branch in exec_stmt.rs',
    ),
    'C06': dict(
        title='Arrays are independent values with queue and dictionary behaviour',
        verus=['val_arrays', 'val_ops'], kani=['c06_'],
        technique=V + ': val.rs array/queue/dictionary functions against the mathematical content (Seq / Map view), '
                      'auto-extension, key kinds, &mut frame conditions (Rc::make_mut contract)',
    ),
    'C07': dict(
        title='Split, join, cast and rounding',
        verus=['val_mut'], kani=['c07_'],
        technique=V + ' (cut/cast/turn kind and error tables, std preconditions such as from_str_radix radix range as '
                      'proof obligations; string contents uninterpreted) + ' + K + ' (rounding and integrality on all f64)',
    ),
    'C08': dict(
        title='Input and output happen once each, in program order',
        verus=['exec_io', 'exec_glue'], kani=[],
        technique=V + ': Environment::output/input against a ghost stream model (assumed writeln!/read_line contracts), '
                      'visit_output/visit_input event traces (exactly one I/O event, errors returned)',
    ),
    'C14': dict(
        title='Equality, ordering and logic obey their algebraic laws',
        verus=['val_ops', 'fold'], kani=['c14_'],
        technique=K + ' proving the laws directly on compiled equals/compare/fold for all scalar payloads + ' + V +
                  ' (tables from which the laws follow for all six kinds)',
    ),
    'C16': dict(
        title='Visitors see every node exactly once, in order',
        verus=['visit_runner'], kani=['c16_'],
        technique='Kani recording-visitor harnesses: per traversal method, callbacks checked by kind + node address + '
                  'order, symbolic presence of optional children and symbolic failing callback (children abstract); '
                  'list-shaped children bounded (len <= 2, labelled) + Verus unit visit_runner: every ExprVisitorRunner VisitProgram method, '
                  'children abstract, unbounded, against walk(expected children)',
    ),
    'C17': dict(
        title='The constant folder only reports values the interpreter would compute',
        verus=['folder', 'fold', 'val_ops'], kani=['c17_'],
        technique=V + ' (tools.rs folder methods for arbitrary subtrees: left fold, accumulator on the left, first error wins, '
                      'only + - * / and unary minus fold, never identifiers/pronouns/subscripts/pops) + ' + K +
                  ' (NumericConstant operators = IEEE operation bit for bit, same as Val::plus/... )',
    ),
    'C19': dict(
        title='Lint reports are complete, ordered by line, and linting never fails',
        verus=['linter', 'visit_runner'], kani=['c19_'],
        technique=V + ' (ListBuilder build/combine/default incl. unreachable_unchecked sites, postprocess stable sort, '
                      'Linter::run, repeated-identifier rule match_or_update / visit_function_call) + Kani recording '
                      'visitors for the ExprVisitorRunner traversal the pass runs on',
    ),
}

NOT_APPLICABLE = {
    'C10': 'relational property over two executions / processes (hash-seed dependent iteration order): no function '
           'contract within reach of Verus or Kani can state or decide it; the one relevant site (join over '
           'dict.values()) is outside both tools\' subset (iterator adapters + fmt; pointer-carrying Val in CBMC)',
    'C15': 'relation between runs of two different programs through lexer, parser and interpreter; the parser is out of '
           'reach of both verifiers (closures capturing &mut self; Kani does not terminate on 3 input bytes)',
    'C20': 'process-level behaviour (argv, files, stdout/stderr, exit status, clap): neither verifier models a process '
           'boundary; cli/ is glue over print!/eprintln!',
    # not yet built (will move to PROPS when their units exist)
    'C01': 'not yet built', 'C02': 'not yet built', 'C09': 'not yet built', 'C11': 'not yet built',
    'C12': 'not yet built', 'C13': 'not yet built', 'C18': 'not yet built',
}
