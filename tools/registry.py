"""Which units / harness families decide which property.  MANIFEST.json is generated from this file
(tools/gen_manifest.py) so the two cannot drift."""

# verus: list of unit names (units/<name>.vrs); every extracted function in the unit is an obligation of the
#        property unless the function carries its own `//@props` that excludes it.
# kani:  list of harness-name filters (substring of the qualified harness name); tag convention `cNN_`.
PROPS = {
    'C03': dict(
        title='Expressions evaluate by the Rockstar value rules for every operand kind',
        verus=['val_ops'],
        kani=['c03_'],
        technique='Verus contracts on extracted val.rs/produce_val.rs/exec_stmt.rs functions against reference '
                  'coercion tables (all six kinds, floats uninterpreted) + Kani loop-free harnesses over all '
                  'f64/bool payloads on the compiled code (scalar kinds, IEEE bit-precise)',
    ),
}

NOT_APPLICABLE = {
    'C10': 'relational property over two executions / processes (hash-seed dependent iteration order): no function '
           'contract within reach of Verus or Kani can state or decide it; the one relevant site (join over '
           'dict.values()) is outside both tools\' subset (iterator adapters + fmt; pointer-carrying Val in CBMC)',
    'C15': 'relation between runs of two different programs through lexer, parser and interpreter; the parser is out of '
           'reach of both verifiers (closures capturing &mut self; Kani does not terminate on 3 input bytes)',
    'C20': 'process-level behaviour (argv, files, stdout/stderr, exit status, clap): neither verifier models a process '
           'boundary; cli/ is glue over print!/eprintln!',
}
