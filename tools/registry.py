"""Which units / harness families decide which property.  MANIFEST.json is generated from this file
(tools/gen_manifest.py) so the two cannot drift."""

# verus: list of unit names (units/<name>.vrs); every extracted function in the unit is an obligation of the
#        property unless the function carries its own `//@props` that excludes it.
# kani:  list of harness-name filters (substring of the qualified harness name); tag convention `cNN_`.
V = 'Verus contracts on functions extracted from /repo each run'
K = 'Kani loop-free full-domain harnesses on the compiled crate'

PROPS = {
    'C03': dict(
        title='Expressions evaluate by the Rockstar value rules for every operand kind',
        verus=['val_ops', 'fold', 'produce', 'exec_glue'], kani=['c03_'],
        technique=V + ' (val.rs coercion/comparison/arithmetic/rendering against reference tables for all six kinds; '
                      'produce_val.rs operator step incl. short-circuit call counts; floats uninterpreted) + ' + K +
                  ' (all f64/bool payloads of the four scalar kinds, IEEE bit-precise, through Val::* and binary_operator_fold)',
    ),
    'C04': dict(
        title='Control flow follows the program text',
        verus=['exec_flow', 'exec_glue', 'visit_defaults', 'exec_entry'], kani=[],
        technique=V + ': block/if/while/until/break/continue/return of exec_stmt.rs against trace languages over a ghost '
                      'event trace with abstract callees (unbounded: all blocks, all iteration counts, failing callees); the statement dispatch the '
                      'interpreter inherits (VisitProgram::visit_statement default: each of the 18 statement kinds goes to its own method); exec_using / exec: '
                      'the run starts from one fresh scope over the caller\'s own streams and its result is returned unchanged',
    ),
    'C05': dict(
        title='Functions, scopes and pronouns',
        verus=['env', 'sym_table', 'call', 'exec_flow', 'exec_glue', 'write_val', 'produce', 'sym_lower'], kani=[],
        technique=V + ': environment.rs scope stack / innermost-first lookup (read and write path, only the entry hit can change) / '
                      'creation in the innermost scope / pronoun referent against a Seq<Map> view; sym_table.rs: one map per kind of name, '
                      'case-folded key on every path (lookup, mutable lookup, insertion), kind errors, no overwrite; the call protocol of ProduceVal::visit_function_call (arity before arguments, arguments left to '
                      'right once each, by-value binding, fresh executor, pop, first return value), scope push/pop per loop '
                      'iteration and branch in exec_stmt.rs; SymTable::for_function_call / Environment::push_function_scope (parameters bound in order in ONE fresh scope, '
                      'a repeated name is an error); the write path WriteVal (a variable is looked up through the scopes first and created only if absent, a pronoun is the last access) and '
                      'the read path ProduceVal::visit_pronoun / visit_variable_name over a ghost trace; the three ToLowercase impls (every part of a name case-folded, nothing else changed)',
    ),
    'C06': dict(
        title='Arrays are independent values with queue and dictionary behaviour',
        verus=['val_arrays', 'produce', 'val_ops', 'exec_glue', 'write_val'], kani=['c06_'],
        technique=V + ': val.rs array/queue/dictionary functions against the mathematical content (Seq / Map view), '
                      'auto-extension, key kinds, &mut frame conditions (Rc::make_mut contract); the indexed write path WriteVal::visit_array_subscript against a trace protocol '
                      '(subscripts evaluated outermost first, each handed to index_or_insert exactly as evaluated — an array key is refused there —, innermost applied first, writer once on the innermost place, first error wins), '
                      'ProduceVal::visit_array_pop_expr and its writer closure',
    ),
    'C07': dict(
        title='Split, join, cast and rounding',
        verus=['val_mut', 'exec_glue', 'val_arrays'], kani=['c07_'],
        technique=V + ' (cut/cast/turn kind and error tables, std preconditions such as from_str_radix radix range as '
                      'proof obligations; string contents uninterpreted; ExecStmt::mutation_helper / visit_mutation / visit_rounding '
                      'over the ghost event trace: parameter once and first, into-destination never writes the operand, one writer '
                      'application, result returned unchanged) + ' + K + ' (rounding and integrality on all f64)',
    ),
    'C08': dict(
        title='Input and output happen once each, in program order',
        verus=['exec_io', 'exec_glue', 'exec_entry'], kani=[],
        technique=V + ': Environment::output/input against a ghost stream model (assumed writeln!/read_line contracts), '
                      'visit_output/visit_input event traces (exactly one I/O event, errors returned); exec_using / Environment::raw: the output stream of the '
                      'environment IS the caller\'s stream (nothing interposed that could defer a write or swallow its error)',
    ),
    'C14': dict(
        title='Equality, ordering and logic obey their algebraic laws',
        verus=['laws', 'val_ops', 'fold', 'exec_glue'], kani=['c14_'],
        technique=K + ' proving the laws directly on compiled equals/compare/fold for all scalar payloads + ' + V +
                  ' (tables from which the laws follow for all six kinds)',
    ),
    'C16': dict(
        title='Visitors see every node exactly once, in order',
        verus=['visit_runner', 'visit_defaults'], kani=['c16_'],
        technique='Kani recording-visitor harnesses: per traversal method, callbacks checked by kind + node address + '
                  'order, symbolic presence of optional children and symbolic failing callback (children abstract); '
                  'list-shaped children bounded (len <= 2, labelled) + Verus unit visit_runner: every ExprVisitorRunner VisitProgram method, '
                  'children abstract, unbounded, against walk(expected children); Verus unit visit_defaults: the dispatching / fixed-children DEFAULT '
                  'methods of VisitExpr / VisitProgram (all 18 statement kinds, expression / primary / identifier / name dispatch), unbounded',
    ),
    'C17': dict(
        title='The constant folder only reports values the interpreter would compute',
        verus=['folder', 'fold', 'val_ops', 'poetic'], kani=['c17_'],
        technique=V + ' (tools.rs folder methods for arbitrary subtrees: left fold, accumulator on the left, first error wins, '
                      'only + - * / and unary minus fold, never identifiers/pronouns/subscripts/pops) + ' + K +
                  ' (NumericConstant operators = IEEE operation bit for bit, same as Val::plus/... )',
    ),
    'C19': dict(
        title='Lint reports are complete, ordered by line, and linting never fails',
        verus=['linter', 'visit_runner', 'visit_defaults', 'boring', 'boring_diag', 'lint_render', 'ast_lines', 'ast_ranges', 'source_range'], kani=['c19_'],
        technique=V + ' (ListBuilder build/combine/default incl. unreachable_unchecked sites, postprocess stable sort, '
                      'Linter::run, repeated-identifier rule match_or_update / visit_function_call / visit_variable_name, its report (line, name, one suggestion) and fresh state; '
                      'the line of every statement / expression node (units ast_lines, ast_ranges, source_range)) + Kani recording '
                      'visitors for the ExprVisitorRunner traversal the pass runs on',
    ),
    'C01': dict(
        title='Lexing and parsing are total',
        verus=['lexer', 'tables', 'parser_core', 'parser_stmts', 'parser_exprs', 'parser_poetic', 'parser_names', 'parser_primary', 'lexer_chars', 'parser_caps', 'parser_display'], kani=['c01_'],
        technique=V + ' — PARTIAL: lexer: slicing preconditions (valid char-boundary slice = no out-of-bounds read in debug or release), '
                      'u32 column / line arithmetic, the token loop match_loop (every branch ends on a boundary at or after the cursor, '
                      'the loop terminates, None only at the end of the buffer), scan_delimited, tokenize_word (non-empty stem); parser: '
                      'every get_*_operator(..).unwrap() token list proved total, token primitives, statement dispatch, statement / '
                      'expression / name / poetic-literal parsers over an abstract token stream: every consume() / unwrap() / '
                      'unchecked_unwrap() / unreachable_unchecked() site in them is an obligation, the block, program, list and operator '
                      'loops terminate (decreases: tokens left); capitalised identifiers incl. match_and_consume_while instantiated at their closures and both unchecked helpers; '
                      'poetic strings (both unwraps); Display for Token / TokenType / ParseErrorLocation and expected_id_description (total on what check_mutation_args puts into the error). '
                      'Inputs assumed shorter than u32::MAX bytes',
        level_note='partial: substr / advance_to / get_index_of (pointer arithmetic) are assumed contracts; find_word_start / find_next_index are under contract over an abstract CharIndices '
                   '(unit lexer_chars) but the lexer unit still uses their stated contracts; Display for ParseError (format! macros) and stack depth are NOT under contract (DESIGN.md §10.5)',
    ),
    'C02': dict(
        title='Every spelling of a program parses to the same syntax tree',
        verus=['tables', 'parser_stmts', 'parser_core', 'parser_exprs', 'parser_poetic', 'parser_names', 'parser_primary', 'lexer', 'lexer_chars', 'parser_caps'], kani=[],
        technique=V + ' — PARTIAL: get_unary/binary/mutation_operator, get_rounding_direction, is_literal_word, Block::new '
                      'against reference tables; statement level of the grammar: the dispatch table (starting token -> statement '
                      'kind) and each statement parser against the sequence of sub-parser calls, required and optional words and '
                      'the assembled node (sub-parsers abstract), block structure (blank line / else / end closes a block); '
                      'expression grammar: the precedence ladder logical < comparison < term < factor < unary (operator set and '
                      'next level of each level), left-associative fold, is-forms and their required words, comma lists and the '
                      'no-nested-lists flag (next level defunctionalised); names: order of the name kinds, pronouns, dispatch of statements that '
                      'start with a name, function definitions / calls, parameter and argument separators; what separates tokens: is_ignorable_whitespace = ANY Unicode whitespace but a line feed, '
                      'is_ignorable_punctuation, is_word, find_word_start skips exactly ignorable whitespace; proper nouns = the longest run of capitalised words, spelled as written. '
                      'The KEYWORDS alias table content and comments are not decided',
        level_note='partial: KEYWORDS alias table, primary expressions, identifier classes, comment skipping and '
                   'statements starting with a word are not under contract (DESIGN.md §5 C02)',
    ),
    'C09': dict(
        title='Running any parseable program never crashes the interpreter',
        verus=['val_ops', 'val_arrays', 'val_mut', 'fold', 'produce', 'exec_flow', 'exec_glue', 'exec_io', 'env', 'call', 'folder',
               'linter', 'boring', 'visit_runner', 'poetic', 'sym_table', 'write_val', 'val_display', 'exec_entry'],
        kani=['c09_'],
        panic_site_files=['src/exec/write_val.rs', 'src/exec/val.rs', 'src/exec/produce_val.rs', 'src/exec/exec_stmt.rs',
                          'src/exec/sym_table.rs', 'src/exec/environment.rs', 'src/frontend/ast.rs', 'src/exec/display.rs',
                          'src/exec/val/display.rs'],
        technique=V + ' — PARTIAL: every panic / unchecked-unsafe site (unwrap, unchecked_unwrap, unreachable_unchecked, '
                      'unreachable!, debug_assert!, inner!, integer overflow, std preconditions such as from_str_radix) inside a '
                      'function under contract is a proof obligation (rewritten to unreached()/requires); sites are '
                      'enumerated mechanically and the ones not under contract are reported, not passed',
        level_note='partial: evidence.coverage.panic_site_coverage lists every site outside a discharged contract '
                   '(write_val.rs, sym_table.rs, ast.rs compute_value, display code)',
    ),
    'C11': dict(
        title='Poetic literals denote the number or string their words spell',
        verus=['tables', 'poetic', 'parser_poetic', 'exec_glue'], kani=['c11_'],
        technique=V + ' — PARTIAL: ast.rs: grouping of literal elements into digits (a word with ALL suffixes that follow it is one '
                      'digit; orphan suffixes; PoeticNumberLiteralIterator::next / greedily_match_suffixes, unbounded), the per-digit '
                      'term of compute_value ((sum of word lengths) mod 10 times 10^(exponent - index), closure body extracted; f64 '
                      'uninterpreted); parser.rs: literal-vs-expression decision of the right-hand side, tokens admitted into a '
                      'literal, element produced per token incl. hyphen joining, no leading hyphen / empty literal. + Kani bounded '
                      'harness for word_len (valid UTF-8 of <= 2 bytes, labelled bounded). compute_value: exponent = groups before the '
                      'FIRST period - 1 (position_or_end under contract); exec_stmt.rs: visit_poetic_number_assignment / '
                      'visit_poetic_string_assignment store exactly the evaluated value / the string with the literal text, once. '
                      'Not decided: the filter/enumerate/sum chain of compute_value around the term (one assumed shim), float rounding, '
                      'the text slicing of poetic strings (get_literal_text_after: pointer arithmetic, assumed)',
        level_note='partial: see DESIGN.md §10.3b; word_len only bounded',
    ),
    'C12': dict(
        title='Tokens carry their exact spelling and true source position',
        verus=['lexer', 'lexer_chars', 'source_range'], kani=['c12_'],
        technique=K + ' (SourceRange / SourceLocation algebra, all u32) + ' + V + ' — PARTIAL: every token constructor (spelling = '
                      'buf[start..end], range = that span on the current line; multi-line comments / strings end on the line the text ends '
                      'on; suffix tokens after words, numbers, strings and comments; error tokens), tokenize_word (stem and staged suffix '
                      'spelled and positioned exactly), and the token loop: each token starts on the line the lexer stood on, at a column '
                      'between the old and the new cursor, the line counter follows the newlines of the token, a new line start never lies '
                      'beyond the cursor; what is skipped between tokens (unit lexer_chars: find_word_start over an abstract CharIndices skips ignorable whitespace only, the two ignorable-character classes, '
                      'find_next_index / find_next_word_end / next_char do not move the cursor); SourceRange::new / normalized / concat / to / line (unit source_range: start <= end, the mutual recursion terminates, '
                      'a concatenation in source order starts where the first range starts)',
        level_note='partial: see DESIGN.md §10.3b; char_indices is a ghost cursor, str functions are assumed',
    ),
    'C13': dict(
        title='Syntax errors are rejected and attributed to the line they occur on',
        verus=['parser_core', 'parser_stmts', 'parser_exprs', 'parser_names', 'parser_primary', 'lexer', 'parser_display', 'parser_caps', 'source_range'], kani=[],
        technique=V + ' — PARTIAL: over an abstract token stream (remaining tokens as a sequence): expect_token / expect_token_or_end / '
                      'expect_any / expect_eol consume exactly what they accept and otherwise return the error located at the '
                      'offending token (or the current line at end of input: new_parse_error); every statement in a block is followed '
                      'by an end of statement; the program loop returns Ok only with no token left; an unknown statement start is an '
                      'error at that token; every statement parser demands its required words and operands and returns the first '
                      'error; error tokens of the lexer span exactly the bad word; the line PRINTED for an error is the line its token starts on (Display for ParseErrorLocation, SourceRange::start). '
                      'Sub-parsers for expressions and names abstract',
        level_note='partial: Display for ParseError (format! macros; only its location / token parts are under contract) and the '
                   'composition of the units over whole programs are not decided (DESIGN.md §5 C13)',
    ),
    'C10': dict(
        title='Same program and input give the same output, result and messages every time',
        verus=['val_arrays', 'val_mut', 'sym_table', 'linter', 'val_display'], kani=[],
        technique=V + ' — PARTIAL (the per-function ingredients): every function that walks the HashMap part of an array returns a '
                      'function of the array CONTENT: Array::val_iter = numeric part in order, then the dictionary values in KEY order '
                      '(`HashMap::values()` is specified as "no order promised", so the contract fails on it), Val::join is a function of '
                      'that sequence (result and the element named in its error), Array::is_empty / len do not depend on order; the symbol '
                      'tables are only ever addressed by key (the abstract map type has no iteration); lint diagnostics are sorted by line '
                      'with the STABLE sort (read off the method name). The property itself relates two executions (different hash seeds, '
                      'processes): that is not stated by any contract and not decided',
        level_note='partial: Display for Array (sorts formatted entries: a write! over an itertools chain; Display for Val / DictKeyRef are under contract: a function of the value alone), error rendering, the linter passes\' own '
                   'iteration and process-level effects are not under contract (DESIGN.md §10.5)',
    ),
    'C15': dict(
        title='Renaming variables and re-casing names or keywords never changes behaviour',
        verus=['sym_table', 'env', 'parser_names', 'lexer', 'sym_lower', 'parser_caps'], kani=[],
        technique=V + ' — PARTIAL (the per-call ingredient only): names are compared without regard to letter case on EVERY symbol-table '
                      'path — lookup, mutable lookup and insertion all address the entry under the case-folded key (generic HashMap impl '
                      'and the BTreeMap impl for proper names), one map per kind of name and the kind of the name alone picks the map, '
                      'for all three kinds in variable, parameter and function position (SymTable / Environment functions); keywords are looked up '
                      'under the lower-cased word (match_keyword, also for a stem after its suffix was stripped: find_word_type); the three ToLowercase impls replace EVERY part of a name by its lower-casing '
                      '(Unicode `lower` uninterpreted, string iterator idioms as shims) and proper nouns keep their words as written (parse_capitalized_identifier). The property '
                      'itself is a relation between the runs of TWO programs (original and renamed / re-cased): no function contract can '
                      'state it, and it is not decided',
        level_note='partial: char::to_lowercase (Unicode content, idempotence, injectivity on distinct spellings) is uninterpreted; '
                   'match_keyword case folding, the parser name functions (parse_variable_name, parse_function, parse_function_call) and '
                   'the invariance of whole runs under renaming are NOT decided (DESIGN.md §10.5)',
    ),
    'C18': dict(
        title='Constant-assignment lint is exact and its suggested rewrite is equivalent',
        verus=['boring', 'folder', 'boring_diag', 'lint_render', 'ast_lines', 'ast_ranges', 'source_range'], kani=['c18_'],
        technique=V + ' — PARTIAL: report condition of visit_assignment / visit_poetic_number_assignment, no suggestion '
                      'without a poetic spelling, digit -> word template, as_text bytes (ASCII => from_utf8_unchecked sound), '
                      'from_value domain (no underflow); how the report is assembled (build_diag and the three builders: the line given, ONE diagnostic, a suggestion exactly when there is a payload, '
                      'a payload exactly when the number has a poetic spelling / the string has no line break); how the target is named (Render impls: the words as written, single spaces); '
                      'which line is reported (impl Line for every statement node = the line of its first component; impl Range for expression nodes; SourceRange::concat / line). '
                      'Re-parsing the suggestion is not decided (it would relate the linter to the parser)',
        level_note='partial: see DESIGN.md §5 C18; assumed: f64 Display of a finite sign-positive value uses digits and "." only',
    ),
}

NOT_APPLICABLE = {
    'C20': 'process-level behaviour (argv, files, stdout/stderr, exit status, clap): neither verifier models a process '
           'boundary; cli/ is glue over print!/eprintln!',
}
