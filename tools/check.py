#!/usr/bin/env python3
"""/verif/check <ID> [--tier quick|thorough] [--replay PATH] [--update-expect]

exit 0  every obligation generated from /repo's current tree was discharged
exit 1  + `VIOLATION property=<ID> replay=<path> ...` an obligation of the property's contract is refuted
exit 2  + `UNDECIDED property=<ID> reason=...`      lost anchor / unsupported construct / verifier limit
"""
import argparse
import hashlib
import json
import os
import re
import sys
import time

HERE = os.path.dirname(os.path.abspath(__file__))
ROOT = os.path.dirname(HERE)
sys.path.insert(0, HERE)

import kani_engine as ke  # noqa: E402
import verus_engine as ve  # noqa: E402
from registry import PROPS, NOT_APPLICABLE  # noqa: E402
from rsrc import LostAnchor  # noqa: E402

EVID = os.path.join(ROOT, 'evidence')
REPLAYS = os.path.join(ROOT, 'replays')
# developer runs against a scratch copy (tools/mutant.sh sets VERIF_REPO) must not overwrite the evidence of /repo
if os.environ.get('VERIF_REPO', '/repo') != '/repo':
    EVID = os.path.join(os.environ.get('VERIF_SCRATCH', '/var/tmp/rrss-verif'), 'mut-evidence')
    REPLAYS = os.path.join(os.environ.get('VERIF_SCRATCH', '/var/tmp/rrss-verif'), 'mut-replays')
KNOWN = os.path.join(ROOT, 'KNOWN_FINDINGS.txt')
EXPECT = os.path.join(ROOT, 'specs', 'EXPECT.json')
TRUSTED_NOTES = os.path.join(ROOT, 'specs', 'TRUSTED.md')


def load_known():
    """-> list of dict(property, obligation, text) for `finding:` lines (fixed: lines suppress nothing)"""
    res = []
    if not os.path.exists(KNOWN):
        return res
    for line in open(KNOWN):
        line = line.strip()
        if not line.startswith('finding:'):
            continue
        m = re.match(r'finding:\s+property=(\S+)\s+obligation=(\S+)\s*(.*)$', line)
        if m:
            res.append(dict(property=m.group(1), obligation=m.group(2), text=m.group(3)))
    return res


def msg_kind(msg):
    for k, tag in [('postcondition', 'postcondition'), ('post-condition', 'postcondition'), ('precondition', 'precondition'), ('assertion', 'assertion'),
                   ('invariant', 'invariant'), ('decreases', 'termination'), ('termination', 'termination'),
                   ('overflow', 'arithmetic'), ('division', 'arithmetic')]:
        if k in msg:
            return tag
    return 'obligation'


def write_replay(pid, obligation, payload):
    os.makedirs(REPLAYS, exist_ok=True)
    h = hashlib.sha256((obligation + json.dumps(payload, sort_keys=True, default=str)).encode()).hexdigest()[:10]
    safe = re.sub(r'[^A-Za-z0-9_.-]+', '_', obligation)[:80]
    path = os.path.join(REPLAYS, '%s-%s-%s.json' % (pid, safe, h))
    payload = dict(payload, property=pid, obligation=obligation)
    json.dump(payload, open(path, 'w'), indent=1, default=str)
    return path


def run_property(pid, tier, seed):
    spec = PROPS[pid]
    t0 = time.time()
    obligations = []      # dict(name, engine, backend, status, time_s, detail, fn)
    undecided = []
    trusted = set()
    functions = []
    cmds = []
    bounded = []
    canaries = dict(verus_ok=0, verus_total=0, kani_ok=0, kani_total=0)
    samples = []

    # ------------------------------------------------------------------ Verus units
    for unit in spec.get('verus', []):
        try:
            r = ve.run_unit(unit, tier=tier)
        except LostAnchor as e:
            undecided.append('unit %s: lost anchor: %s' % (unit, e))
            continue
        except ve.UnitError as e:
            undecided.append('unit %s: %s' % (unit, e))
            continue
        a = r['analysis']
        cmds.append(r['run']['cmd'].replace(str(os.getpid()), '<pid>'))
        for t in r['trusted']:
            trusted.add('%s: %s' % (unit, t))
        for u in a['undecided']:
            undecided.append('unit %s: %s' % (unit, u))
        canaries['verus_ok'] += a['canaries_ok']
        canaries['verus_total'] += a['canaries_total']
        for f in r['meta']['functions']:
            if f['props'] is not None and pid not in f['props']:
                continue
            st = a['functions'].get(f['key'], dict(status='undecided', errors=[], time_ms=None))
            functions.append(dict(function=f['name'], unit=unit, repo_file=f['repo_file'], repo_line=f['repo_line'],
                                  repo_end_line=f.get('repo_end_line', f['repo_line']), sha256=f['sha256'], rewrites=f['rewrites'],
                                  lost_rewrites=f.get('lost_rewrites', []), status=st['status']))
            ob = dict(name=f['key'], engine='verus', backend='verus/z3', status=st['status'],
                      time_s=(st['time_ms'] or 0) / 1000.0, contract=f['desc'],
                      where='%s:%d' % (f['repo_file'], f['repo_line']), errors=st['errors'])
            if f.get('lost_rewrites'):
                ob['note'] = 'expected extraction rewrites that no longer match the source (the code changed there): ' + \
                             '; '.join(f['lost_rewrites'])[:400]
            if st['status'] == 'vacuous':
                undecided.append('unit %s: vacuity canary of %s verified (contradictory precondition?)' % (unit, f['key']))
            if st['status'] == 'undecided' and not a['undecided']:
                undecided.append('unit %s: %s undecided: %s' % (unit, f['key'], '; '.join(e['message'] for e in st['errors'][:2])))
            obligations.append(ob)
            if len(samples) < 6:
                samples.append(dict(obligation=f['key'], where=ob['where'], contract=f['desc'][:240], backend='verus/z3'))

    # ------------------------------------------------------------------ Kani harnesses
    filters = spec.get('kani', [])
    if filters:
        try:
            kr = ke.run(tier, filters)
        except ke.KaniError as e:
            kr = None
            undecided.append('kani: %s' % e)
        if kr is not None:
            cmds.append(kr['cmd'])
            if kr['build_failed']:
                undecided.append('kani: crate + harnesses did not build: %s' % '; '.join(kr.get('compile_errors', []))[:600])
            for hid, h in sorted(kr['harnesses'].items()):
                cls, why = ke.classify(hid, h)
                leaf = hid.split('::kani_', 1)[-1]
                is_bounded = '__bounded' in hid
                backend = 'kani/cbmc+%s' % h['solver']
                if cls in ('canary_ok', 'canary_vacuous'):
                    canaries['kani_total'] += 1
                    if cls == 'canary_ok':
                        canaries['kani_ok'] += 1
                    else:
                        undecided.append('kani: canary %s verified (vacuity guard)' % leaf)
                    continue
                if is_bounded:
                    bounded.append(dict(harness=leaf, status=cls, detail=why, time_s=h['duration_ms'] / 1000.0))
                    if cls == 'violation':
                        obligations.append(dict(name='kani::' + leaf, engine='kani', backend=backend, status='violation',
                                                time_s=h['duration_ms'] / 1000.0, detail=why, harness_id=hid, bounded=True))
                    elif cls == 'undecided':
                        undecided.append('kani (bounded) %s: %s' % (leaf, why))
                    continue
                st = {'ok': 'ok', 'violation': 'violation', 'undecided': 'undecided'}[cls]
                if st == 'undecided':
                    undecided.append('kani %s: %s' % (leaf, why))
                obligations.append(dict(name='kani::' + leaf, engine='kani', backend=backend, status=st,
                                        time_s=h['duration_ms'] / 1000.0, detail=why, harness_id=hid,
                                        checks=h['checks']))
                if len(samples) < 10 and st == 'ok':
                    samples.append(dict(obligation='kani::' + leaf, backend=backend, cbmc_checks=h['checks']))
            trusted.add('kani: CBMC 6.11 model of rustc MIR, std (Vec/Box/Rc) and IEEE-754; debug profile')
    return dict(obligations=obligations, undecided=undecided, trusted=sorted(trusted), functions=functions,
                cmds=cmds, bounded=bounded, canaries=canaries, samples=samples, wall_s=time.time() - t0)


PANIC_PATTERNS = [r'\.unwrap\(\)', r'\.expect\(', r'unchecked_unwrap\(\)', r'unreachable_unchecked\(\)', r'\bunreachable!\(',
                  r'\bunimplemented!\(', r'\bdebug_assert!\(', r'\bassert!\(', r'\bpanic!\(', r'get_unchecked\(',
                  r'from_utf8_unchecked\(', r'push_unchecked\(', r'\binner!\(']


def panic_site_coverage(functions, files):
    """C09: enumerate panic / unchecked-unsafe sites in `files` (non-test code) mechanically and say which lie inside a
    function whose contract was discharged in this run (there every such site is a proof obligation, rule 2)."""
    from rsrc import SourceFile
    repo = os.environ.get('VERIF_REPO', '/repo')
    sites, covered, uncovered = 0, 0, []
    for rel in files:
        path = os.path.join(repo, rel)
        if not os.path.exists(path):
            continue
        sf = SourceFile(path)
        for ln, line in enumerate(sf.m.split('\n'), 1):
            for pat in PANIC_PATTERNS:
                for _ in re.finditer(pat, line):
                    sites += 1
                    hit = [f for f in functions if f['repo_file'] == rel and f['repo_line'] <= ln <= f['repo_end_line']
                           and f.get('status') == 'ok']
                    if hit:
                        covered += 1
                    else:
                        uncovered.append('%s:%d %s' % (rel, ln, pat.replace('\\', '')))
    return dict(panic_sites=sites, inside_discharged_contracts=covered, not_under_contract=uncovered)


def main():
    ap = argparse.ArgumentParser()
    ap.add_argument('pid')
    ap.add_argument('--tier', default=os.environ.get('VERIF_TIER', 'quick'), choices=['quick', 'thorough'])
    ap.add_argument('--replay')
    ap.add_argument('--update-expect', action='store_true')
    args = ap.parse_args()
    pid = args.pid
    seed = int(os.environ.get('VERIF_SEED', '0') or 0)
    if args.replay:
        return do_replay(pid, args.replay, args.tier)
    if pid not in PROPS:
        if pid in NOT_APPLICABLE:
            print('NOT-APPLICABLE property=%s %s' % (pid, NOT_APPLICABLE[pid]))
            return 0
        print('unknown property', pid)
        return 2
    os.makedirs(EVID, exist_ok=True)
    r = run_property(pid, args.tier, seed)
    known = [k for k in load_known() if k['property'] == pid]
    viol = [o for o in r['obligations'] if o['status'] == 'violation']
    ok = [o for o in r['obligations'] if o['status'] == 'ok']
    und = list(r['undecided'])
    # vacuity: obligation count must not fall below the recorded expectation
    exp = {}
    if os.path.exists(EXPECT):
        exp = json.load(open(EXPECT))
    key = '%s/%s' % (pid, args.tier)
    n_verus = len([o for o in r['obligations'] if o['engine'] == 'verus'])
    n_kani = len([o for o in r['obligations'] if o['engine'] == 'kani' and not o.get('bounded')])
    if args.update_expect:
        exp[key] = dict(verus=n_verus, kani=n_kani, canaries=r['canaries']['verus_total'] + r['canaries']['kani_total'])
        os.makedirs(os.path.dirname(EXPECT), exist_ok=True)
        json.dump(exp, open(EXPECT, 'w'), indent=1, sort_keys=True)
    elif key in exp:
        e = exp[key]
        if n_verus < e['verus'] or n_kani < e['kani']:
            und.append('vacuity guard: %d verus + %d kani obligations generated, expected at least %d + %d'
                       % (n_verus, n_kani, e['verus'], e['kani']))
        if r['canaries']['verus_total'] + r['canaries']['kani_total'] < e.get('canaries', 0):
            und.append('vacuity guard: fewer canaries than expected')
    else:
        und.append('vacuity guard: no expectation recorded for %s (run --update-expect)' % key)
    if not r['obligations']:
        und.append('vacuity guard: zero obligations generated')

    lines = []
    new_viol = []
    known_hit = []
    for o in viol:
        k = next((k for k in known if k['obligation'] == o['name']), None)
        if k:
            known_hit.append((k, o))
        else:
            new_viol.append(o)
    for k, o in known_hit:
        lines.append('KNOWN-FINDING: property=%s obligation=%s %s' % (pid, o['name'], k['text']))
    for o in new_viol:
        if o['engine'] == 'kani':
            tests, native = [], ''
            try:
                tests, native = ke.playback(args.tier, o['harness_id'])
            except Exception as e:  # noqa: BLE001
                native = 'playback failed: %s' % e
            path = write_replay(pid, o['name'], dict(engine='kani', harness=o['harness_id'], failed_check=o['detail'],
                                                     concrete_playback_tests=tests, native_playback=native,
                                                     backend=o['backend']))
            tail = '' if tests else ' no-failing-input-found'
            lines.append('VIOLATION property=%s replay=%s obligation=%s%s' % (pid, path, o['name'], tail))
        else:
            kinds = sorted(set(msg_kind(e['message']) for e in o['errors'])) or ['obligation']
            path = write_replay(pid, o['name'], dict(engine='verus', unit=o['name'].split('::')[0], where=o['where'],
                                                     contract=o['contract'], verifier_output=o['errors'],
                                                     failed=kinds, note='Verus gives no model'))
            lines.append('VIOLATION property=%s replay=%s obligation=%s::%s no-failing-input-found'
                         % (pid, path, o['name'], '+'.join(kinds)))
    discharged = len(ok)
    total = len(r['obligations'])
    site_cov = None
    if PROPS[pid].get('panic_site_files'):
        site_cov = panic_site_coverage(r['functions'], PROPS[pid]['panic_site_files'])
    evidence = dict(
        property_id=pid, tier=args.tier, seed=seed, level='proof',
        coverage=dict(
            obligations=total, discharged=discharged,
            checker_cmd=' ; '.join(r['cmds']) or 'none',
            trusted_base=r['trusted'],
            functions_under_contract=r['functions'],
            obligation_results=[dict(name=o['name'], backend=o['backend'], status=o['status'], solver_time_s=o['time_s'])
                                for o in r['obligations']],
            bounded_checks=r['bounded'],
            canaries=r['canaries'],
            known_findings=[dict(obligation=o['name'], text=k['text']) for k, o in known_hit],
            undecided=und,
            panic_site_coverage=site_cov,
            samples=r['samples'],
            explanation='obligation = one function under contract (Verus: all its requires-at-call-sites, ensures, '
                        'invariants, assertions, arithmetic/unreachability conditions) or one loop-free Kani harness '
                        '(all CBMC checks of the harness); bounded harnesses are listed under bounded_checks and '
                        'not counted',
        ),
        assumptions=r['trusted'],
        wall_s=round(r['wall_s'], 2),
        violations=len(new_viol),
    )
    json.dump(evidence, open(os.path.join(EVID, pid + '.json'), 'w'), indent=1)
    for line in lines:
        print(line)
    if new_viol:
        for u in und:
            print('UNDECIDED property=%s reason=%s' % (pid, u[:500]))
        return 1
    if und:
        for u in und:
            print('UNDECIDED property=%s reason=%s' % (pid, u[:500]))
        return 2
    print('OK property=%s tier=%s obligations=%d discharged=%d bounded=%d known_findings=%d wall=%.1fs'
          % (pid, args.tier, total, discharged + len(known_hit), len(r['bounded']), len(known_hit), r['wall_s']))
    return 0


def do_replay(pid, path, tier):
    d = json.load(open(path))
    print('replay of %s (%s)' % (d['obligation'], d['engine']))
    if d['engine'] == 'kani':
        tests, native = ke.playback(tier, d['harness'])
        print('\n'.join(tests[:2]))
        print(native)
        failed = bool(tests)
    else:
        unit = d['unit']
        r = ve.run_unit(unit, tier=tier)
        st = r['analysis']['functions'].get(d['obligation'], {})
        failed = st.get('status') == 'violation'
        for e in st.get('errors', []):
            print(' -', e['message'], '|', e['text'][:200])
    print('still failing' if failed else 'no longer failing')
    return 1 if failed else 0


if __name__ == '__main__':
    sys.exit(main())
