#!/usr/bin/env python3
"""Generate /verif/MANIFEST.json from tools/registry.py."""
import json
import os
import sys

HERE = os.path.dirname(os.path.abspath(__file__))
ROOT = os.path.dirname(HERE)
sys.path.insert(0, HERE)
from registry import PROPS, NOT_APPLICABLE  # noqa: E402

BASELINE = ("cd /repo && cargo nextest run --workspace --no-fail-fast --tool-config-file pb:/w/lib/nextest.toml "
            "--profile pb --test-threads 8 --offline || cargo test --workspace --no-fail-fast --offline")


def main():
    checks = []
    for pid in sorted(PROPS):
        p = PROPS[pid]
        checks.append(dict(
            property_id=pid,
            quick_cmd='./check %s --tier quick' % pid,
            thorough_cmd='./check %s --tier thorough' % pid,
            evidence_file='evidence/%s.json' % pid,
            replay_cmd_template='./check %s --replay {path}' % pid,
            engine=' + '.join(e for e, k in (('verus-extract', 'verus'), ('kani-inject', 'kani')) if p.get(k)),
            level_claimed=dict(category='proof', text=p.get('level_text', p['technique']),
                               design_ref=p.get('design_ref', 'DESIGN.md §5 ' + pid)),
            level_note=p.get('level_note', 'see evidence trusted_base: std shims (external_body / assume_specification), '
                                           'uninterpreted f64/string functions in Verus, CBMC model in Kani; functions '
                                           'on the property\'s path that are not under contract are listed in DESIGN.md'),
            technique=p['technique'],
        ))
    m = dict(
        version=1,
        setup_cmd='./setup.sh',
        hooks=dict(
            guard='kani',
            enable='no source hooks are committed to /repo: `#[cfg(kani)] #[path=...] mod kani_*;` lines are appended to a '
                   'scratch copy of the working tree at check time (cfg `kani` is set by cargo-kani only)',
            baseline_off_cmd=BASELINE,
            source_commits=[],
            add_only=True,
        ),
        engines=[
            dict(name='verus-extract', path='tools/verus_engine.py',
                 serves_properties=sorted(p for p in PROPS if PROPS[p].get('verus')),
                 kind_free_text='Verus 0.2026.09.13 on functions extracted mechanically from /repo on every run '
                                '(units/*.vrs hold contracts + the stated rewrite rules)'),
            dict(name='kani-inject', path='tools/kani_engine.py',
                 serves_properties=sorted(p for p in PROPS if PROPS[p].get('kani')),
                 kind_free_text='Kani 0.68 / CBMC 6.11 harnesses (kani/*.rs) injected as child modules into a scratch '
                                'copy of the real crate; loop-free full-domain harnesses = proofs, others labelled bounded'),
        ],
        checks=checks,
        not_applicable=[dict(property_id=k, reason=v) for k, v in sorted(NOT_APPLICABLE.items())],
        notes='exit 0 = all obligations discharged; exit 1 + VIOLATION line = refuted obligation; exit 2 + UNDECIDED '
              'line = lost anchor / construct outside the extractor subset / verifier limit (never reported as a violation).',
    )
    json.dump(m, open(os.path.join(ROOT, 'MANIFEST.json'), 'w'), indent=1)
    print('wrote MANIFEST.json with %d checks, %d not applicable' % (len(checks), len(NOT_APPLICABLE)))


if __name__ == '__main__':
    main()
