#!/usr/bin/env python3
"""developer helper: run Kani harnesses matching the given filters on the current /repo and print results."""
import os
import sys
sys.path.insert(0, os.path.dirname(os.path.abspath(__file__)))
import kani_engine as ke  # noqa: E402

tier = 'quick'
args = sys.argv[1:]
if args and args[0] == '--thorough':
    tier = 'thorough'
    args = args[1:]
r = ke.run(tier, args)
if r['build_failed']:
    print('BUILD FAILED')
    print(r['log_tail'])
    sys.exit(2)
for hid, h in sorted(r['harnesses'].items()):
    cls, why = ke.classify(hid, h)
    print('%-90s %-12s %6.1fs %s %s' % (hid.split('::kani_')[-1], cls, h['duration_ms'] / 1000.0, h['solver'], why[:150]))
print('wall %.1fs' % r['wall_s'])
