#!/usr/bin/env python3
"""Run each seeded defect (seeded/<ID>-<k>/patch.diff) against the check of its property on a scratch copy of /repo
(VERIF_REPO), record the outcome in seeded/<ID>-<k>/meta.json and seeded/MATRIX.md.
usage: seed_matrix.py [ID-k ...]"""
import json
import os
import re
import subprocess
import sys

ROOT = os.path.dirname(os.path.dirname(os.path.abspath(__file__)))
SEED = os.path.join(ROOT, 'seeded')


def main():
    names = sys.argv[1:] or sorted(d for d in os.listdir(SEED) if os.path.isdir(os.path.join(SEED, d)))
    for n in names:
        d = os.path.join(SEED, n)
        meta = json.load(open(os.path.join(d, 'meta.json')))
        pid = meta['property']
        p = subprocess.run([os.path.join(ROOT, 'tools', 'mutant.sh'), os.path.join(d, 'patch.diff'),
                            os.path.join(ROOT, 'check'), pid], stdout=subprocess.PIPE, stderr=subprocess.STDOUT, text=True)
        lines = [l for l in p.stdout.splitlines() if re.match(r'(OK|VIOLATION|UNDECIDED|KNOWN-FINDING)', l)]
        viol = [l for l in lines if l.startswith('VIOLATION')]
        und = [l for l in lines if l.startswith('UNDECIDED')]
        outcome = 'DETECTED' if p.returncode == 1 and viol else ('undecided (exit 2)' if p.returncode == 2 else
                                                                 ('missed (exit 0)' if p.returncode == 0 else 'rc=%d' % p.returncode))
        meta['detection'] = dict(check='./check %s --tier quick (VERIF_REPO = scratch copy with the patch applied)' % pid,
                                 exit_code=p.returncode, outcome=outcome,
                                 obligations=[re.sub(r'replay=\S+ ', '', l)[:300] for l in viol[:6]],
                                 undecided=[l[:300] for l in und[:4]])
        json.dump(meta, open(os.path.join(d, 'meta.json'), 'w'), indent=1)
        print(n, outcome, (viol or und or lines or [''])[0][:160], flush=True)
    # matrix
    rows = []
    for n in sorted(os.listdir(SEED)):
        mp = os.path.join(SEED, n, 'meta.json')
        if not os.path.exists(mp):
            continue
        m = json.load(open(mp))
        det = m.get('detection')
        if isinstance(det, dict):
            ob = '; '.join(re.sub(r'^VIOLATION property=\S+ obligation=', '', o)[:90] for o in det['obligations'][:2]) \
                or '; '.join(re.sub(r'^UNDECIDED property=\S+ reason=', '', o)[:110] for o in det['undecided'][:1])
            rows.append('| %s | %s | %s | %s |' % (n, m['summary'][:110].replace('|', '/').replace('\n', ' '), det['outcome'], ob.replace('|', '/')))
    open(os.path.join(SEED, 'MATRIX.md'), 'w').write(
        '# Seeded defects vs. checks\n\nEach row: an independently produced change that breaks the property, compiles and passes the '
        '217 baseline tests (confirmed, see meta.json), run against `./check <property>` (quick tier).\n\n'
        '| seeded | change | outcome | failed obligation / reason |\n|---|---|---|---|\n' + '\n'.join(rows) + '\n')


if __name__ == '__main__':
    main()
