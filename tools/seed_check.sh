#!/bin/sh
# usage: seed_check.sh <patchdir> <PROP>...  -- run ./check PROP on a scratch copy of /repo with the seeded patch applied
D=$1; shift
for P in "$@"; do
  echo "--- $D vs $P"
  /verif/tools/mutant.sh $D/patch.diff /verif/check $P 2>&1 | cut -c1-220 | grep -E "^(OK|VIOLATION|UNDECIDED|KNOWN)" | head -6
  echo "rc=$?"
done
