"""E-V: Verus on functions extracted mechanically from /repo on every run.

A unit is a template `units/<name>.vrs`: ordinary Verus source (the specification library: abstract views,
spec functions, contracts of abstracted callees) in which `//@fn` blocks stand for *real* functions:

    //@fn src/exec/val.rs | impl Val | cmp_coerced      file | regex on an enclosing block header | fn name
    //@as  new_name                                      (optional) rename, e.g. for nested fns
    //@attr #[verifier::exec_allows_no_decreases_clause] (optional, repeatable)
    //@sig                                               (optional) signature override; default: the real
    fn ...                                               signature with `-> T` turned into `-> (r: T)`
    //@spec                                              requires / ensures / decreases clauses
        ensures ...
    //@rw REGEX ==> REPLACEMENT                          rewrite applied to the extracted body; must match
    //@rw? REGEX ==> REPLACEMENT                         optional rewrite
    //@loop N                                            clauses inserted before the body of the N-th loop
        invariant ...
    //@nocanary                                          do not generate the `ensures false` vacuity clone
    //@end

The body between the braces is taken from the repository, verbatim except for the listed rewrites (each a
documented rule of DESIGN.md §3.2).  `//@item file | enum|struct | Name` extracts a type definition
(attributes dropped; `//@derive X,Y` re-adds the named derives).  `//@include lib/x.rs` splices a shared file.
"""
import hashlib
import shutil
import json
import os
import re
import subprocess
import time

from rsrc import SourceFile, LostAnchor, find_loops, find_closures, split_sig, mask, norm_ws

ROOT = os.path.dirname(os.path.dirname(os.path.abspath(__file__)))
REPO = os.environ.get('VERIF_REPO', '/repo')
SCRATCH = os.environ.get('VERIF_SCRATCH', '/var/tmp/rrss-verif')
UNITS = os.path.join(ROOT, 'units')

VIOLATION_MSGS = [
    'postcondition not satisfied', 'precondition not satisfied', 'assertion failed',
    'invariant not satisfied', 'loop invariant not preserved', 'decreases not satisfied',
    'possible arithmetic underflow/overflow', 'possible division by zero', 'possible bit shift underflow/overflow',
    'unable to prove assertion safety condition', 'recursive call', 'could not prove termination',
    'loop ensures not satisfied', 'possible truncation', 'failed this', 'not satisfied',
    'unable to prove post-condition', 'unable to prove pre-condition', 'post-condition of closure', 'precondition not met',
]
RESOURCE_MSGS = ['Resource limit', 'rlimit', 'timed out', 'timeout']


class UnitError(Exception):
    """the unit could not be built or run (exit 2)"""


_files = {}


def srcfile(rel):
    p = os.path.join(REPO, rel)
    if p not in _files:
        if not os.path.exists(p):
            raise LostAnchor('%s does not exist' % rel)
        _files[p] = SourceFile(p)
    return _files[p]


def parse_rw(payload):
    if '==>' not in payload:
        raise UnitError('bad //@rw: ' + payload)
    a, b = payload.split('==>', 1)
    return a.strip(), b.strip().replace('\\n', '\n').replace('{SP}', ' ')


def split_spec(spec):
    """-> (requires_text, rest_text) splitting on clause keywords at line starts"""
    req, rest, cur = [], [], None
    for line in spec.split('\n'):
        kw = re.match(r'\s*(requires|ensures|decreases|returns|opens_invariants|no_unwind)\b', line)
        if kw:
            cur = req if kw.group(1) == 'requires' else rest
        if cur is not None:
            cur.append(line)
    return '\n'.join(req), '\n'.join(rest)


_CMP = {'!=': 'f64_ne', '==': 'f64_eq', '>=': 'f64_ge', '<=': 'f64_le', '>': 'f64_gt', '<': 'f64_lt'}
_CMPN = {'==': 0, '!=': 1, '>=': 2, '<=': 3, '>': 4, '<': 5}
_FMETH = 'fract|abs|trunc|ceil|floor|round|is_nan|is_finite|is_infinite|is_sign_negative|is_sign_positive|to_string'

# named generic rewrites (DESIGN.md §3.2 rule 2): the operator that is in the code picks the shim, so a changed
# operator is still extracted and then fails the contract instead of losing the anchor
BUILTINS = {
    # comparison of an f64 place with a float literal:  *n != 0.0  ->  f64_ne(*n, 0.0)
    'f64cmp': (r'(\*\w+|\b\w+(?:\.\w+)*(?:\.\w+\(\))?)\s*(!=|==|>=|<=|>|<)\s*(-?\d+\.\d+)\b',
               lambda m: 'm_cmp(%du8, %s, %s)' % (_CMPN[m.group(2)], m.group(1), m.group(3))),
    # f64 methods on a binding: n.fract() -> m_fract(n); (*n as i64) -> m_as_i64(*n)
    'f64method': (r'\b(\w+(?:\.\w+)*)\.(%s)\(\)' % _FMETH, lambda m: 'm_%s(%s)' % (m.group(2), m.group(1))),
    # COND.then(|| X)  ->  (if COND { Some(X) } else { None })      (definition of bool::then)
    'bool_then_some': (r'(?s)^\{\s*(.*?)\.then\(\|\| (.*)\)\s*\}$',
                       lambda m: '{ if %s { Some(%s) } else { None } }' % (m.group(1).strip(), m.group(2).strip())),
    'f64cast': (r'(?<![\w>])\((\*\w+) as (usize|i64)\)|(\*\w+) as (usize|i64)',
                lambda m: 'm_as_%s(%s)' % (m.group(2) or m.group(4), m.group(1) or m.group(3))),
    # self.symbols.iter()[.rev()].map(|table| table.lookup_X(name)).find(Self::stop_searching)
    #   -> search_lookup_X(&self.symbols, <rev present?>, name)        (rule 5: direction read off the chain; the
    #      predicate must be stop_searching and the element function a SymTable lookup of `name`)
    'scope_search': (r'self\s*\.symbols\s*\.(iter|iter_mut)\(\)\s*(\.rev\(\))?\s*\.map\(\|table\| table\.(lookup_var|lookup_func|lookup_var_mut)\(name\)\)'
                     r'\s*\.find\(Self::stop_searching\)',
                     lambda m: 'search_%s(&%sself.symbols, %s, name)' % (m.group(3), 'mut ' if m.group(1) == 'iter_mut' else '',
                                                                        'true' if m.group(2) else 'false')),
    # diags.sort_by_key(|diag| diag.line)   -> {stable,unstable}_sort_by_line(&mut diags): which one is read off the
    # method name, so replacing the stable sort by an unstable one fails the ordering contract
    'sort_by_line': (r'diags\.(sort_by_key|sort_by_cached_key|sort_unstable_by_key)\(\|diag\| diag\.line\)',
                     lambda m: '%s_sort_by_line(&mut diags)' % ('unstable' if 'unstable' in m.group(1) else 'stable')),
    # COND.then(|| X).unwrap_or(Y)  ->  if COND { X } else { Y }     (definition of bool::then + Option::unwrap_or;
    # Y must be a constant expression since unwrap_or evaluates it eagerly)
    'bool_then': (r'(?s)^\{\s*(.*?)\s*\.then\(\|\| (.*?)\)\s*\.unwrap_or\((Err\(\w+\))\)\s*\}$',
                  lambda m: '{ if %s { %s } else { %s } }' % (m.group(1), m.group(2), m.group(3))),
    # Val::Number(a + b)  ->  Val::Number(f64_binop('+', *a, *b))   (a, b are `&f64` bindings)
    'f64arith': (r'Val::Number\((\w+) ([-+*/]) (\w+)\)',
                 lambda m: "Val::Number(f64_binop('%s', *%s, *%s))" % (m.group(2), m.group(1), m.group(3))),
}


class Block:
    def __init__(self, kind, header):
        self.kind = kind          # 'fn' | 'item'
        self.header = header
        self.d = {'attr': [], 'rw': [], 'loop': {}, 'closure': {}, 'props': None, 'as': None, 'bodyof': None, 'sig': None, 'spec': '',
                  'nocanary': False, 'derive': None, 'desc': ''}


def build(unit_name, outdir, global_rw=()):
    """Expand units/<unit>.vrs into outdir/<unit>.rs.  Returns (path, meta)."""
    tpath = os.path.join(UNITS, unit_name + '.vrs')
    lines = expand_includes(open(tpath).read().split('\n'), os.path.dirname(tpath))
    out = []            # generated lines
    meta = dict(unit=unit_name, functions=[], items=[], props=[], rewrites=0, template=tpath)
    cur = None
    payload_key = None
    unit_rw = list(global_rw)

    def emit(text):
        out.extend(text.split('\n'))

    i = 0
    while i < len(lines):
        line = lines[i]
        i += 1
        dm = re.match(r'\s*//@(\w+[?!]?)\s*(.*)$', line)
        if not dm:
            if cur is not None and payload_key is not None:
                if payload_key[0] == 'loop':
                    cur.d['loop'][payload_key[1]] += line + '\n'
                else:
                    cur.d[payload_key[0]] = (cur.d[payload_key[0]] or '') + line + '\n'
            elif cur is None:
                out.append(line)
            continue
        key, arg = dm.group(1), dm.group(2).strip()
        if cur is None:
            if key == 'props':
                meta['props'] = arg.split()
            elif key == 'unit':
                pass
            elif key == 'unitrw':
                unit_rw.append(parse_rw(arg) + (False,))
            elif key == 'unitbuiltin':
                if arg not in BUILTINS:
                    raise UnitError('%s: unknown builtin rewrite %s' % (tpath, arg))
                unit_rw.append(BUILTINS[arg] + (False,))
            elif key in ('fn', 'item'):
                cur = Block(key, [x.strip() for x in arg.split('|')])
                payload_key = None
            elif key == 'lemma_begin':
                meta.setdefault('_open_lemma', (arg.split()[0], len(out) + 1, ' '.join(arg.split()[1:])))
            elif key == 'lemma_end':
                nm, st, desc = meta.pop('_open_lemma')
                meta['functions'].append(dict(name=nm, repo_file='(lemma over contracts)', repo_line=0, ctx='', sha256='',
                                              gen_lines=[st, len(out)], canary=None, desc=desc or 'lemma', props=None,
                                              rewrites=0, key='%s::lemma::%s' % (unit_name, nm), qual='', lemma=True))
            elif key == 'foreach':
                # //@foreach <file> | <regex, group 1 = comma separated list> | min=<n> | <template using $ITEM>
                parts = [x.strip() for x in arg.split(' | ')]
                if len(parts) != 4:
                    raise UnitError('%s: bad //@foreach: %s' % (tpath, arg))
                rel, rx, mn, tmpl = parts
                sf = srcfile(rel)
                items = []
                for mm in re.finditer(rx, sf.m, re.S):
                    lst = sf.src[mm.start(1):mm.end(1)]
                    items += [x.strip() for x in lst.split(',') if x.strip()]
                if len(items) < int(mn.split('=')[1]):
                    raise LostAnchor('%s: call-site list /%s/ yields %d items, expected at least %s' % (rel, rx, len(items), mn))
                out.append('// ---- %d items extracted from %s by /%s/' % (len(items), rel, rx))
                for it_ in items:
                    out.append(tmpl.replace('$ITEM', it_))
                meta.setdefault('foreach', []).append(dict(file=rel, regex=rx, items=items))
            else:
                raise UnitError('%s: unknown top-level directive //@%s' % (tpath, key))
            continue
        payload_key = None
        if key == 'end':
            if cur.kind == 'fn':
                emit_fn(cur, out, meta, unit_rw, unit_name)
            else:
                emit_item(cur, out, meta)
            cur = None
        elif key == 'attr':
            cur.d['attr'].append(arg)
        elif key == 'as':
            cur.d['as'] = arg
        elif key == 'bodyof':
            # `//@bodyof closure N`: the function emitted is the BODY OF THE N-th CLOSURE of the named function, verbatim,
            # under the signature given by //@sig (closures with `&mut` parameters cannot be verified in place)
            mm = re.match(r'closure\s+(\d+)$', arg)
            if not mm:
                raise UnitError('%s: bad //@bodyof %s' % (tpath, arg))
            cur.d['bodyof'] = int(mm.group(1))
        elif key == 'props':
            cur.d['props'] = arg.split()
        elif key == 'desc':
            cur.d['desc'] = arg
        elif key == 'derive':
            cur.d['derive'] = arg
        elif key == 'nocanary':
            cur.d['nocanary'] = True
        elif key == 'noisvariant':
            cur.d['noisvariant'] = True
        elif key in ('rw', 'rw?', 'rw!'):
            cur.d['rw'].append(parse_rw(arg) + ({'rw': True, 'rw?': False, 'rw!': 'critical'}[key],))
        elif key == 'builtin' and arg == 'map_or_else':
            cur.d['rw'].append(('@map_or_else', None, False))
        elif key == 'builtin' and arg in ('optmap', 'resmap', 'optmap_all', 'or_else_all'):
            cur.d['rw'].append(('@' + arg, None, True))
        elif key == 'builtin':
            if arg not in BUILTINS:
                raise UnitError('%s: unknown builtin rewrite %s' % (tpath, arg))
            cur.d['rw'].append(BUILTINS[arg] + (False,))
        elif key == 'sig':
            cur.d['sig'] = arg + '\n' if arg else ''
            payload_key = ('sig',)
        elif key == 'spec':
            cur.d['spec'] = arg + '\n' if arg else ''
            payload_key = ('spec',)
        elif key == 'loop':
            n = int(arg)
            cur.d['loop'][n] = ''
            payload_key = ('loop', n)
        elif key == 'closure':
            # //@closure N ==> HEADER ==> PRELUDE      ($BODY in HEADER/PRELUDE = the closure's own body text)
            parts = [x.strip() for x in arg.split('==>')]
            if len(parts) != 3:
                raise UnitError('%s: bad //@closure: %s' % (tpath, arg))
            cur.d['closure'][int(parts[0])] = (parts[1], parts[2])
        else:
            raise UnitError('%s: unknown directive //@%s' % (tpath, key))
    if cur is not None:
        raise UnitError('%s: unterminated //@%s block' % (tpath, cur.kind))
    os.makedirs(outdir, exist_ok=True)
    path = os.path.join(outdir, unit_name + '.rs')
    open(path, 'w').write('\n'.join(out) + '\n')
    meta['path'] = path
    return path, meta


def expand_includes(lines, base):
    res = []
    for line in lines:
        m = re.match(r'\s*//@include\s+(\S+)', line)
        if m:
            p = os.path.join(UNITS, m.group(1))
            res.append('// ---- begin include %s' % m.group(1))
            res.extend(expand_includes(open(p).read().split('\n'), os.path.dirname(p)))
            res.append('// ---- end include %s' % m.group(1))
        else:
            res.append(line)
    return res


def receiver_start(m, k):
    """index just before the start of the postfix chain (identifiers, `.`, `::`, `&`, `?`, balanced brackets, a
    `match <expr> { … }` block, and whitespace that is followed by a `.`) that ends at offset k of the masked text m"""
    i, depth = k - 1, 0
    while i >= 0:
        ch = m[i]
        if ch in ')]}':
            depth += 1
        elif ch in '([{':
            if depth == 0:
                break
            depth -= 1
            if depth == 0 and ch == '{':
                # a block as receiver: only `match <scrutinee> { … }` is understood
                mm = re.search(r'\bmatch\s+[^{};]*$', m[:i])
                if mm:
                    return mm.start() - 1
                return i       # unknown block: the caller will produce something that does not compile (undecided)
        elif depth == 0 and ch in ' \n\t':
            j = i
            while j < k and m[j] in ' \n\t':
                j += 1
            if m[j] != '.':
                break
        elif depth == 0 and not (ch.isalnum() or ch in '_.:&?<>'):
            break
        i -= 1
    return i


def desugar_map_or_else(text):
    """X.map_or_else(|| A, |p| B)  ->  (match X { None => A, Some(p) => B })   — the definition of
    Option::map_or_else; needed because Verus rejects closures that capture `&mut self`."""
    from rsrc import find_closures, match_close
    n = 0
    while True:
        m = mask(text)
        k = m.find('.map_or_else(')
        if k < 0:
            return text, n
        # receiver: maximal postfix chain ending at k
        i, depth = k - 1, 0
        while i >= 0:
            ch = m[i]
            if ch in ')]':
                depth += 1
            elif ch in '([':
                if depth == 0:
                    break
                depth -= 1
            elif depth == 0 and not (ch.isalnum() or ch in '_.:&?\n \t' and (ch not in ' \n\t' or m[i + 1:i + 2] in ('.', ' ', '\n', '\t') or True)):
                break
            elif depth == 0 and ch in ' \n\t':
                # whitespace is part of the chain only when followed (after more whitespace) by a '.'
                j = i
                while j < k and m[j] in ' \n\t':
                    j += 1
                if m[j] != '.':
                    break
            i -= 1
        recv = text[i + 1:k].strip()
        op = k + len('.map_or_else')
        cl = match_close(m, op)
        args = text[op + 1:cl]
        cls = find_closures(mask(args))
        if len(cls) != 2:
            raise LostAnchor('map_or_else with %d closure arguments' % len(cls))
        (s1, p1, b1, e1), (s2, p2, b2, e2) = cls
        none_body = args[b1:e1].strip()
        param = args[s2 + 1:p2].strip()
        some_body = args[b2:e2].strip()
        new = '(match %s { None => %s, Some(%s) => %s })' % (recv, none_body, param, some_body)
        text = text[:i + 1] + new + text[cl + 1:]
        n += 1


def question_marks_outside_closures(body):
    from rsrc import find_closures
    mb = mask(body)
    spans = [(c[0], c[3]) for c in find_closures(mb)]
    return any(ch == '?' and not any(a <= i < b for a, b in spans) for i, ch in enumerate(mb))


_cps_counter = [0]


def cps_closure_try(body):
    """Make the `?` of a closure body explicit WITHOUT changing what it returns from: in a closure `E?` means
    `match E { Ok(v) => v, Err(e) => return Err(From::from(e)) }` with `return` leaving the CLOSURE.  Once the closure is
    inlined into a `match` arm a plain `?` would leave the function instead, so the block is rewritten in
    continuation style:   { s1; let x = f(E?); rest }   ->   { s1; match E { Err(e_) => Err(e_), Ok(q_) => { let x = f(q_); rest } } }
    (`From::from` on the error is the identity here: if the error types differed the generated file would not type-check
    and the unit is undecided).  Only straight-line blocks are handled; a `?` under a nested block is refused."""
    from rsrc import find_closures
    text = body.strip()
    if not question_marks_outside_closures(text):
        return text
    if not (text.startswith('{') and text.endswith('}')):
        text = '{ ' + text + ' }'
    inner = text[1:-1]
    m = mask(inner)
    spans = [(c[0], c[3]) for c in find_closures(m)]
    # split into statements at top-level `;`
    pieces, depth, last = [], 0, 0
    for i, ch in enumerate(m):
        if ch in '([{':
            depth += 1
        elif ch in ')]}':
            depth -= 1
        elif ch == ';' and depth == 0:
            pieces.append((last, i))
            last = i + 1
    pieces.append((last, len(inner)))
    for idx, (a, b) in enumerate(pieces):
        st, ms = inner[a:b], m[a:b]
        q = next((i for i, ch in enumerate(ms) if ch == '?' and not any(x <= a + i < y for x, y in spans)), None)
        if q is None:
            continue
        # the `?` must not sit under a nested block of this statement
        depth_b = 0
        for ch in ms[:q]:
            depth_b += ch == '{'
            depth_b -= ch == '}'
        if depth_b != 0:
            raise UnitError('closure-level `?` inside a nested block: not desugared')
        i = receiver_start(ms, q)
        prefix, recv = st[:i + 1], st[i + 1:q]
        if ')' in mask(prefix):
            raise UnitError('closure-level `?` after another call in the same statement: evaluation order would change')
        _cps_counter[0] += 1
        v = 'q%d_' % _cps_counter[0]
        before = inner[:a]
        rest = prefix + v + st[q + 1:] + inner[b:]
        return '{ %s match %s { Err(e_) => Err(e_), Ok(%s) => %s } }' % (before, recv.strip(), v, cps_closure_try('{' + rest + '}'))
    return text


def desugar_option_or_else(text, need_self=True):
    """R.or_else(|| B) -> (match R { Some(v_) => Some(v_), None => B });  R.unwrap_or_else(|| B) -> (match R { Some(v_) => v_,
    None => B });  C.then(|| B) -> (if C { Some(B) } else { None })  — the definitions of Option::or_else /
    Option::unwrap_or_else / bool::then; only for parameterless closures that mention `self`."""
    from rsrc import find_closures, match_close
    n, start = 0, 0
    while True:
        m = mask(text)
        mm = re.search(r'\.(or_else|unwrap_or_else|then)\(\s*\|\|', m[start:])
        if not mm:
            return text, n
        k = start + mm.start()
        op = k + len('.' + mm.group(1))
        cl = match_close(m, op)
        args = text[op + 1:cl]
        cls = find_closures(mask(args))
        if not cls or cls[0][0] != len(args) - len(args.lstrip()) or cls[0][3] < len(args.rstrip()) \
                or (need_self and 'self' not in args and mm.group(1) != 'then'):
            start = op
            continue
        s1, p1, b1, e1 = cls[0]
        body = cps_closure_try(args[b1:e1])
        i = receiver_start(m, k)
        recv = text[i + 1:k].strip()
        some = 'Some(v_)' if mm.group(1) == 'or_else' else 'v_'
        if mm.group(1) == 'then':      # bool::then
            new = '(if %s { Some(%s) } else { None })' % (recv, body)
        else:
            new = '(match %s { Some(v_) => %s, None => %s })' % (recv, some, body)
        text = text[:i + 1] + new + text[cl + 1:]
        n += 1
        start = i + 1


def desugar_option_map(text, mode='asref', need_self=True):
    """X.as_ref().map(|p| B)  ->  (match X.as_ref() { None => None, Some(p) => Some(B) })  — definition of Option::map;
    applied only when the closure body mentions `self` (Verus rejects closures capturing `&mut self`).
    mode 'asref': only receivers ending in .as_ref() / .ok();  'opt': any receiver, taken to be an Option;
    'res': any receiver, taken to be a Result (Ok(p) => Ok(B), Err(e) => Err(e))."""
    from rsrc import find_closures, match_close
    n = 0
    start = 0
    pat = r'\.(?:as_ref|ok)\(\)\s*\.(?:map|and_then)\(' if mode == 'asref' else r'\.(?:map|and_then)\('
    while True:
        m = mask(text)
        mm = re.search(pat, m[start:])
        if not mm:
            return text, n
        k = start + mm.start()
        op = start + mm.end() - 1
        cl = match_close(m, op)
        args = text[op + 1:cl]
        cls = find_closures(mask(args))
        if not cls or cls[0][0] != len(args) - len(args.lstrip()) or cls[0][3] < len(args.rstrip()) or (need_self and 'self' not in args):
            start = op
            continue
        s1, p1, b1, e1 = cls[0]
        i = receiver_start(m, k)
        recv = text[i + 1:k].strip()
        if mode == 'asref':
            recv += re.match(r'\.(?:as_ref|ok)\(\)', m[k:]).group(0)
        is_and_then = 'and_then' in m[k:op]
        param = args[s1 + 1:p1].strip()
        body = args[b1:e1].strip()
        # a `?` in the closure body returns from the closure: make that explicit before inlining the body
        body = cps_closure_try(body)
        if mode == 'res':
            new = '(match %s { Err(e) => Err(e), Ok(%s) => %s })' % (recv, param, body if is_and_then else 'Ok(%s)' % body)
        else:
            new = '(match %s { None => None, Some(%s) => %s })' % (recv, param, body if is_and_then else 'Some(%s)' % body)
        text = text[:i + 1] + new + text[cl + 1:]
        n += 1
        start = i + 1   # rescan inside the replacement: maps can nest


def apply_rw(text, rws, where, lost=None):
    """required: False = optional (`//@rw?`), True = expected (`//@rw`: if it no longer matches the function is still
    extracted and verified — Verus then either rejects the unrewritten construct (undecided) or decides the new code —
    and the lost rewrite is recorded), 'critical' = `//@rw!` (a proof hint / ghost argument: without it a failed
    proof would say nothing about the code, so the anchor is lost)."""
    n_applied = 0
    for pat, repl, required in rws:
        if pat == '@map_or_else':
            text, n = desugar_map_or_else(text)
            text, n2 = desugar_option_map(text)
            n_applied += n + n2
            continue
        if pat == '@or_else_all':      # only bool::then / or_else / unwrap_or_else with parameterless closures
            text, n = desugar_option_or_else(text, need_self=False)
            if n == 0 and required:
                raise LostAnchor('%s: builtin %s matches nothing' % (where, pat))
            n_applied += n
            continue
        if pat in ('@optmap', '@resmap', '@optmap_all'):
            n0 = 0
            if pat != '@resmap':
                text, n0 = desugar_option_or_else(text, need_self=(pat != '@optmap_all'))
            text, n = desugar_option_map(text, 'res' if pat == '@resmap' else 'opt', need_self=(pat != '@optmap_all'))
            n += n0
            if n == 0 and required:
                raise LostAnchor('%s: builtin %s matches nothing' % (where, pat))
            n_applied += n
            continue
        new, n = re.subn(pat, repl, text)
        if n == 0 and required:
            if required == 'critical' or lost is None:
                raise LostAnchor('%s: rewrite /%s/ no longer matches (code outside the extractor\'s subset)' % (where, pat))
            lost.append(pat)
        n_applied += n
        text = new
    return text, n_applied


def emit_fn(b, out, meta, unit_rw, unit_name):
    if len(b.header) != 3:
        raise UnitError('bad //@fn header: %s' % b.header)
    rel, ctx, name = b.header
    f = srcfile(rel).find_fn(ctx, name)
    body = f['body']
    if b.d['bodyof']:
        cls = find_closures(mask(body))
        n = b.d['bodyof']
        if n > len(cls):
            raise LostAnchor('%s::%s: closure #%d not found (%d closures in body)' % (rel, name, n, len(cls)))
        cb = body[cls[n - 1][2]:cls[n - 1][3]].strip()
        body = cb if cb.startswith('{') else '{ ' + cb + ' }'
        if not (b.d['sig'] and b.d['as']):
            raise UnitError('//@bodyof needs //@sig and //@as')
    # loop clauses first (positions refer to the unrewritten body)
    edits = []   # (start, end, replacement) on the unrewritten body
    if b.d['loop']:
        loops = find_loops(mask(body))
        for n, clauses in b.d['loop'].items():
            if n < 1 or n > len(loops):
                raise LostAnchor('%s::%s: loop #%d not found (%d loops in body)' % (rel, name, n, len(loops)))
            pos = loops[n - 1][1]
            edits.append((pos, pos, '\n' + clauses.rstrip('\n') + '\n'))
    if b.d['closure']:
        cls = find_closures(mask(body))
        for n, (header, prelude) in b.d['closure'].items():
            if n < 1 or n > len(cls):
                raise LostAnchor('%s::%s: closure #%d not found (%d closures in body)' % (rel, name, n, len(cls)))
            st, pe, bs, be = cls[n - 1]
            cbody = body[bs:be].strip()
            inner = cbody[1:-1].strip() if cbody.startswith('{') and cbody.endswith('}') else cbody
            # two edits (header, closing brace) so that closures nested inside this one can be annotated too
            edits.append((st, bs, '%s { %s ' % (header.replace('$BODY', inner), prelude.replace('$BODY', inner))))
            edits.append((be, be, ' }'))
    for st, en, new in sorted(edits, reverse=True):
        body = body[:st] + new + body[en:]
    lost_rw = []
    body, nrw = apply_rw(body, list(b.d['rw']) + [r for r in unit_rw], '%s::%s' % (rel, name), lost_rw)
    meta['rewrites'] += nrw
    newname = b.d['as'] or name
    # the type the function belongs to: after ` for ` in a trait impl, else after `impl<..>`
    cs = ctx.split(' for ', 1)[1] if ' for ' in ctx else re.sub(r'^\s*(pub\s+)?(impl|trait)\s*(<[^>]*>)?\s*', '', ctx)
    qm = re.match(r'\s*&?\s*([A-Za-z_]\w*)', cs)
    qual = (qm.group(1) + '::') if (qm and ctx not in ('-', '')) else ''
    if b.d['sig']:
        sig = b.d['sig'].rstrip()
    else:
        head, ret, where = split_sig(f['sig'])
        sig = head + (' -> (r: %s)' % ret if ret else '') + ((' ' + where) if where else '')
        if b.d['as']:
            sig = re.sub(r'\bfn\s+%s\b' % re.escape(name), 'fn ' + newname, sig, count=1)
    spec = b.d['spec'].rstrip('\n')
    start_line = len(out) + 1
    for a in b.d['attr']:
        out.append(a)
    out.extend(sig.split('\n'))
    if spec:
        out.extend(spec.split('\n'))
    out.extend(body.split('\n'))
    end_line = len(out)
    rec = dict(name=newname, repo_file=rel, repo_line=f['line'], repo_end_line=f['line'] + f['body'].count('\n') + f['sig'].count('\n'), ctx=ctx, sha256=f['sha256'],
               gen_lines=[start_line, end_line], canary=None, desc=b.d['desc'] or norm_ws(spec)[:300],
               props=b.d['props'], rewrites=nrw, lost_rewrites=lost_rw, key='%s::%s%s' % (unit_name, qual, newname), qual=qual)
    if not b.d['nocanary']:
        req, _ = split_spec(spec)
        cname = 'vacuity_' + newname
        csig = re.sub(r'\bfn\s+%s\b' % re.escape(newname), 'fn ' + cname, sig, count=1)
        c_start = len(out) + 1
        for a in b.d['attr']:
            out.append(a)
        out.extend(csig.split('\n'))
        if req:
            out.extend(req.split('\n'))
        out.append('    ensures false, // vacuity canary: must NOT verify')
        out.extend(body.split('\n'))
        rec['canary'] = dict(name=cname, gen_lines=[c_start, len(out)])
    meta['functions'].append(rec)


def snake(name):
    s1 = re.sub(r'([a-z0-9])([A-Z])', r'\1_\2', name)
    s1 = re.sub(r'([A-Z]+)([A-Z][a-z])', r'\1_\2', s1)
    return s1.lower()


def enum_variants(text):
    """-> list of (name, shape) for the top-level variants of an enum definition text; shape in '', '(..)', '{ .. }'"""
    m = mask(text)
    o = m.index('{')
    body = m[o + 1:m.rindex('}')]
    res, depth, cur = [], 0, ''
    for ch in body + ',':
        if ch in '([{<':
            depth += 1
        elif ch in ')]}>':
            depth -= 1
        if ch == ',' and depth == 0:
            item = cur.strip()
            cur = ''
            if not item:
                continue
            item = re.sub(r'#\[[^\]]*\]', '', item).strip()
            vm = re.match(r'(\w+)\s*(\(|\{)?', item)
            if vm:
                res.append((vm.group(1), {'(': '(..)', '{': '{ .. }', None: ''}[vm.group(2)]))
        else:
            cur += ch
    return res


def isvariant_impl(name, text):
    """regenerate derive_more::IsVariant (one `is_<snake>` predicate per variant), verified, not trusted"""
    gm = re.search(r'enum\s+%s\s*(<[^{]*>)?' % re.escape(name), text)
    gen = (gm.group(1) or '').strip() if gm else ''
    lines = ['// regenerated derive_more::IsVariant for %s' % name, 'impl%s %s%s {' % (gen, name, gen)]
    for v, shape in enum_variants(text):
        lines.append('    pub fn is_%s(&self) -> (r: bool) ensures r == (*self is %s) { matches!(self, %s::%s%s) }'
                     % (snake(v), v, name, v, shape))
    lines.append('}')
    return lines


def emit_item(b, out, meta):
    rel, kind, name = b.header
    it = srcfile(rel).find_item(kind, name)
    text = it['text']
    text, _ = apply_rw(text, b.d['rw'], '%s::%s' % (rel, name))
    text = re.sub(r'(?m)^\s*#\[[^\]]*\]\s*\n', '', text)      # derive-helper attributes on variants/fields (e.g. #[from(ignore)])
    if b.d['derive']:
        out.append('#[derive(%s)]' % b.d['derive'])
    if kind != 'macro_rules' and not text.lstrip().startswith('pub'):
        text = 'pub ' + text.lstrip()     # visibility only: spec functions over the type must be able to name it
    out.extend(text.split('\n'))
    if kind == 'enum' and any('IsVariant' in a for a in it['attrs']) and not b.d.get('noisvariant'):
        out.extend(isvariant_impl(name, text))
    meta['items'].append(dict(name=name, kind=kind, repo_file=rel, repo_line=it['line'], sha256=it['sha256'],
                              dropped_attrs=it['attrs']))


# ------------------------------------------------------------------------------------------------ running
def run_verus(path, rlimit=None, timeout=900):
    cmd = ['verus', path, '--output-json', '--time', '--error-format=json', '--multiple-errors', '8']
    if rlimit:
        cmd += ['--rlimit', str(rlimit)]
    t0 = time.time()
    try:
        p = subprocess.run(cmd, cwd=os.path.dirname(path), stdout=subprocess.PIPE, stderr=subprocess.PIPE, text=True,
                           timeout=timeout)
    except subprocess.TimeoutExpired:
        return dict(cmd=' '.join(cmd), timeout=True, wall_s=time.time() - t0, diags=[], json=None, rc=None)
    diags = []
    for line in p.stderr.splitlines():
        line = line.strip()
        if line.startswith('{'):
            try:
                diags.append(json.loads(line))
            except ValueError:
                pass
    try:
        js = json.loads(p.stdout)
    except ValueError:
        js = None
    return dict(cmd=' '.join(cmd), timeout=False, wall_s=time.time() - t0, diags=diags, json=js, rc=p.returncode,
                stderr_tail=p.stderr[-3000:] if js is None else '')


def fn_at(meta, line):
    for f in meta['functions']:
        a, b = f['gen_lines']
        if a <= line <= b:
            return f, False
        if f['canary']:
            a, b = f['canary']['gen_lines']
            if a <= line <= b:
                return f, True
    return None, False


def analyse(meta, r):
    """-> dict(functions: {key: {status, errors[], time_ms}}, undecided: [..], lib_errors: [..], verified, errors)"""
    res = dict(functions={}, undecided=[], verified=0, errors=0, canaries_ok=0, canaries_total=0, smt_ms=0,
               lib_verified=0)
    if r['timeout']:
        res['undecided'].append('verus timed out')
        return res
    js = r['json']
    if js is None:
        res['undecided'].append('verus produced no JSON: ' + r.get('stderr_tail', '')[-500:])
        return res
    vr = js.get('verification-results', {})
    res['verified'] = vr.get('verified', 0)
    res['errors'] = vr.get('errors', 0)
    fstat = {f['key']: dict(status='ok', errors=[], time_ms=None, canary_failed=False) for f in meta['functions']}
    # compile-level problems
    hard = []
    for d in r['diags']:
        if d.get('level') != 'error':
            continue
        msg = d.get('message', '')
        if msg.startswith('aborting due to'):
            continue
        prim = next((s for s in d.get('spans', []) if s.get('is_primary')), None)
        line = prim['line_start'] if prim else 0
        f, in_canary = fn_at(meta, line)
        # a diagnostic with a rustc error code (E0277 …) is a compile error, whatever its wording
        is_viol = any(v in msg for v in VIOLATION_MSGS) and not d.get('code')
        # a failed precondition of a FUNCTION has a second span on its `requires`; with a single span it is the built-in
        # precondition of a float operator (`a * b` on f64: Verus has no float theory, every float operation that is not behind
        # one of the shims is rejected this way) — a tool limit, not a statement about the code
        if msg.strip() == 'precondition not satisfied' and len(d.get('spans', [])) == 1:
            is_viol = False
            msg = 'float arithmetic outside the shims (built-in precondition): ' + msg
        is_res = any(v in msg for v in RESOURCE_MSGS)
        label = (prim or {}).get('label') or ''
        text = ' | '.join(t['text'].strip() for t in (prim or {}).get('text', [])[:3])
        rec = dict(message=msg, gen_line=line, label=label, text=text[:300])
        if f is None:
            # an error outside any extracted function: spec library or a callee's contract → never a violation
            hard.append('%s (generated line %d: %s)' % (msg, line, text[:120]))
            continue
        if in_canary:
            if is_viol:
                fstat[f['key']]['canary_failed'] = True
            elif not is_res:
                hard.append('canary of %s: %s' % (f['key'], msg))
            continue
        if is_res:
            fstat[f['key']]['status'] = 'undecided'
            fstat[f['key']]['errors'].append(rec)
        elif is_viol:
            if fstat[f['key']]['status'] != 'undecided':
                fstat[f['key']]['status'] = 'violation'
            fstat[f['key']]['errors'].append(rec)
        else:
            fstat[f['key']]['status'] = 'undecided'
            fstat[f['key']]['errors'].append(rec)
            hard.append('%s: %s' % (f['key'], msg))
    if vr.get('encountered-vir-error') or (not vr.get('success') and vr.get('errors', 0) == 0 and not hard):
        hard.append('verus reported an internal/VIR error')
    res['undecided'].extend(hard)
    if hard or not vr.get('success', False) and vr.get('verified', 0) == 0 and vr.get('errors', 0) == 0:
        # the unit did not get as far as verification (type error, unsupported construct, ...): nothing is proved
        for k in fstat:
            if fstat[k]['status'] == 'ok':
                fstat[k]['status'] = 'undecided'
    # timings
    try:
        for mt in js['times-ms']['smt']['smt-run-module-times']:
            for fb in mt.get('function-breakdown', []):
                nm = fb['function']
                res['smt_ms'] += fb.get('time', 0)
                for f in meta['functions']:
                    if nm.endswith('::' + f['qual'] + f['name']) or (nm.split('::')[-1] == f['name'] and fstat[f['key']]['time_ms'] is None
                                                                     and not nm.endswith('::vacuity_' + f['name'])):
                        fstat[f['key']]['time_ms'] = fb.get('time', 0)
    except (KeyError, TypeError):
        pass
    for f in meta['functions']:
        if f['canary']:
            res['canaries_total'] += 1
            if fstat[f['key']]['canary_failed']:
                res['canaries_ok'] += 1
            elif not hard:
                fstat[f['key']]['status'] = 'vacuous' if fstat[f['key']]['status'] == 'ok' else fstat[f['key']]['status']
    res['functions'] = fstat
    return res


TRUST_PATTERNS = [
    (r'#\[verifier::external_body\]', 'external_body'),
    (r'\bassume_specification\b', 'assume_specification'),
    (r'\bassume\s*\(', 'assume'),
    (r'\badmit\s*\(', 'admit'),
    (r'\buninterp\s+spec\s+fn\b', 'uninterp spec fn'),
    (r'#\[verifier::external\b', 'external'),
    (r'\baxiom\b', 'axiom'),
]


def scan_trusted(path):
    """mechanical scan of the generated file for unproved assumptions: -> list of 'kind: next-signature-line'"""
    res = []
    lines = open(path).read().split('\n')
    for i, line in enumerate(lines):
        code = line.split('//')[0]
        for pat, kind in TRUST_PATTERNS:
            if re.search(pat, code):
                # find what it applies to
                tgt = code.strip()
                for j in range(i, min(i + 6, len(lines))):
                    m = re.search(r'\b(fn|struct|enum)\s+(\w+)', lines[j])
                    if m:
                        tgt = '%s %s' % (m.group(1), m.group(2))
                        break
                    m = re.search(r'assume_specification.*\[\s*([^\]]+)\]', lines[j])
                    if m:
                        tgt = m.group(1).strip()
                        break
                res.append('%s: %s' % (kind, tgt))
    return sorted(set(res))


def run_unit(unit_name, tier='quick', keep=False):
    """build + verify one unit.  Returns dict(meta, result, analysis, trusted) or raises LostAnchor/UnitError."""
    outdir = os.path.join(SCRATCH, 'verus-%d' % os.getpid())
    keep = keep or bool(os.environ.get('VERIF_KEEP'))
    try:
        path, meta = build(unit_name, outdir)
        rlimit = None if tier == 'quick' else 40
        r = run_verus(path, rlimit=rlimit)
        a = analyse(meta, r)
        trusted = scan_trusted(path)
        gen_sha = hashlib.sha256(open(path, 'rb').read()).hexdigest()
    finally:
        if not keep:
            shutil.rmtree(outdir, ignore_errors=True)
    return dict(meta=meta, run=dict(cmd=r['cmd'], wall_s=r['wall_s'], rc=r['rc']), analysis=a, trusted=trusted,
                generated_sha256=gen_sha, diags=[d for d in r['diags'] if d.get('level') == 'error'][:40])
