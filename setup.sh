#!/bin/sh
# MANIFEST.setup_cmd: nothing is built ahead of time (every check rebuilds from /repo's working tree);
# this only checks the tools and creates output directories.  Offline.
set -e
cd "$(dirname "$0")"
mkdir -p evidence replays "${VERIF_SCRATCH:-/var/tmp/rrss-verif}"
verus --version >/dev/null
cargo kani --version >/dev/null
python3 -c 'import json, re, fcntl'
echo "setup ok"
